#!/bin/sh
# Kill matrix, parallel form: every patch of mutants/MAP.txt is applied to a scratch git worktree of /repo (never
# to /repo itself), the quick check of each listed property is run against that worktree (MTV_REPO) and must exit 1
# with a VIOLATION line.  Worktrees live under /tmp/st and are removed at the end.  Not a registered check.
# usage: tools/selftest_par.sh [grep-pattern] [workers]      (honours VERIF_SEED)
cd "$(dirname "$0")/.."
pat="${1:-.}"; W="${2:-5}"
H=$(git -C /repo rev-parse HEAD)
mkdir -p /tmp/st
for k in $(seq 1 $W); do
  [ -d /tmp/st/w$k ] || git -C /repo worktree add -q --detach /tmp/st/w$k "$H" 2>/dev/null
  git -C /tmp/st/w$k checkout -q --detach "$H"; git -C /tmp/st/w$k checkout -q -- .
done
grep -v '^#' mutants/MAP.txt | grep -E "$pat" > /tmp/st/jobs.txt
job() {
  k=$1; shift
  while read patch props; do
    wt=/tmp/st/w$k
    git -C $wt reset -q --hard HEAD; git -C $wt clean -qfd maltoolbox 2>/dev/null
    if ! git -C $wt apply "$(pwd)/$patch" 2>/dev/null; then
      # patches confirmed on an earlier HEAD: three-way merge (as tools/try_mutant.sh does)
      if git -C $wt apply --3way "$(pwd)/$patch" 2>/dev/null; then git -C $wt reset -q; else git -C $wt reset -q --hard HEAD; for p in $props; do echo "NOAPPLY $p  $patch"; done; continue; fi
    fi
    for p in $props; do
      out=$(MTV_REPO=$wt ./check $p --tier quick --no-evidence 2>&1); rc=$?
      key=$(echo "$out" | grep -m1 "key=" | sed 's/ *key=//')
      if [ $rc -eq 1 ]; then echo "KILLED  $p  $patch  [$key]"; else echo "MISSED  $p  $patch  rc=$rc $(echo "$out" | grep -m1 INCONCL | cut -c1-120)"; fi
    done
    git -C $wt reset -q --hard HEAD; git -C $wt clean -qfd maltoolbox 2>/dev/null
  done
}
for k in $(seq 1 $W); do
  awk -v k=$k -v w=$W 'NR % w == k % w' /tmp/st/jobs.txt | job $k &
done
wait
for k in $(seq 1 $W); do git -C /repo worktree remove --force /tmp/st/w$k 2>/dev/null; done
git -C /repo worktree prune; rm -rf /tmp/st

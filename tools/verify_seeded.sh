#!/bin/sh
# usage: tools/verify_seeded.sh <Cxx> <k>     (agent worktree /tmp/wt/Cxx, mutant dir mutant<k>)
# Confirms in the scratch worktree: patch applies on /repo HEAD, suite passes with it,
# demo fails with it and passes without it; then stores /verif/seeded/<Cxx>-m<k>/.
set -u
P="$1"; K="$2"; WT=/tmp/wt/$P; M=$WT/mutant$K; OUT=/verif/seeded/$P-m$K
H=$(git -C /repo rev-parse HEAD)
cd "$WT" || exit 9
git checkout -q -- . ; git checkout -q --detach "$H" || exit 9
if git apply --check "$M/patch.diff" 2>/dev/null; then git apply "$M/patch.diff"; how=apply
elif git apply --3way "$M/patch.diff" 2>/dev/null; then git reset -q; how=3way
else echo "$P m$K: PATCH DOES NOT APPLY"; git checkout -q -- .; exit 8; fi
git diff > /var/tmp/$P-m$K.patch
mkdir -p /var/tmp/keep-$P
tests=$(unshare -m sh -c "mount --bind $WT /var/tmp/keep-$P && mount -t tmpfs tmpfs /tmp && cd /var/tmp/keep-$P && PYTHONPATH=/var/tmp/keep-$P /venv/bin/python -m pytest -q -p no:cacheprovider 2>&1 | tail -1")
mkdir -p /var/tmp/scr-$P && cd /var/tmp/scr-$P
PYTHONPATH=$WT /venv/bin/python "$M/demo.py" > /var/tmp/$P-m$K.with.log 2>&1; rc_with=$?
git -C "$WT" checkout -q -- .
PYTHONPATH=$WT /venv/bin/python "$M/demo.py" > /var/tmp/$P-m$K.without.log 2>&1; rc_without=$?
cd /; rm -rf /var/tmp/scr-$P /var/tmp/keep-$P
echo "$P m$K: apply=$how tests='$tests' demo_with_patch_rc=$rc_with demo_without_rc=$rc_without"
case "$tests" in *"60 passed"*) t_ok=1;; *) t_ok=0;; esac
if [ $t_ok = 1 ] && [ $rc_with -ne 0 ] && [ $rc_without -eq 0 ]; then
  mkdir -p "$OUT"
  cp /var/tmp/$P-m$K.patch "$OUT/patch.diff"
  sed "s#/tmp/wt/$P/tests/testdata#/repo/tests/testdata#g" "$M/demo.py" > "$OUT/demo.py"
  /venv/bin/python - "$M/meta.json" "$OUT/meta.json" "$P" "$tests" "$rc_with" "$rc_without" "$H" "$(tail -3 /var/tmp/$P-m$K.with.log | tr '\n' ' ' | cut -c1-400)" <<'PY'
import json, sys
src, dst, prop, tests, rcw, rcwo, head, tail = sys.argv[1:9]
try: m = json.load(open(src))
except Exception: m = {}
out = {'property': prop, 'summary': m.get('summary'), 'needs_to_manifest': m.get('needs_to_manifest'),
       'files_changed': m.get('files_changed'), 'origin': 'independent sub-agent given only the property text and a scratch worktree',
       'confirmed_by_me': {'repo_head': head, 'suite_with_patch': tests, 'demo_rc_with_patch': int(rcw), 'demo_rc_without_patch': int(rcwo),
                           'demo_output_tail_with_patch': tail,
                           'how': 'tools/verify_seeded.sh: patch applied in a scratch worktree at /repo HEAD, suite run in a private mount namespace (tests write fixed /tmp paths), demo run with PYTHONPATH=<worktree> with and without the patch'},
       'run_demo': 'cd <scratch dir> && PYTHONPATH=<tree with patch.diff applied> /venv/bin/python demo.py   (exit 0 = property holds)'}
json.dump(out, open(dst, 'w'), indent=1)
PY
  rm -f /var/tmp/$P-m$K.patch /var/tmp/$P-m$K.with.log /var/tmp/$P-m$K.without.log
  exit 0
fi
echo "  NOT CONFIRMED (see /var/tmp/$P-m$K.*.log)"; exit 1

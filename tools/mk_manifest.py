#!/venv/bin/python
"""Regenerate MANIFEST.json from the property modules that exist (mtv/props/Cxx.py).
Properties without a module are listed under not_applicable with the reason."""
import glob, json, os, sys
V = os.path.dirname(os.path.dirname(os.path.abspath(__file__)))
sys.path.insert(0, V)

TECH = {
 'C01': 'runtime monitoring: per-call oracle on the wrapped recursive evaluator (every nested call vs an independent interval semantics) + end-to-end reference comparison + sound non-termination signals, over generated (language, model) workloads',
 'C02': 'runtime monitoring: post-generation invariant and reference-model comparison (asset x folded steps) over generated workloads with hostile names',
 'C03': 'runtime monitoring: wrapped resolver with per-call oracle (reference fold on a load-time snapshot) + deep snapshot comparison after every step of random histories',
 'C04': 'runtime monitoring: round-trip checker (print spec -> real compiler -> field-by-field comparison) over generated programs and include layouts, anchored on the malc-compiled coreLang specs',
 'C05': 'runtime monitoring: lock-step reference model (shadow Model) compared after every operation of bounded-exhaustive and random histories; snapshot before/after every raising operation',
 'C06': 'runtime monitoring: reference comparison of the generated classes + labelled legal/illegal construction attempts observed through exceptions and the model serialisation',
 'C07': 'runtime monitoring: offline typed checker of save/load artefacts against the abstract model the real Model was built from (lock-step history), incl. hand-written files',
 'C08': 'runtime monitoring: reference greatest fixed point vs labels of the real analysis on live graphs, permutation-invariance oracle; bounded-exhaustive small graphs + random + generated graphs',
 'C09': 'runtime monitoring: structural invariants I1-I3 (identity based) at quiescent points after every operation of bounded-exhaustive and random histories; regenerate vs fresh graph',
 'C10': 'runtime monitoring: offline typed checker original vs loaded attack graph after random operation histories, json/yml, with/without model',
 'C11': 'runtime monitoring: relation-symmetry invariant after every compromise / undo / add / remove operation (bounded-exhaustive + random histories), idempotence by before/after comparison, attach oracle from the abstract model',
 'C12': 'runtime monitoring: definitional reference for every query answer, incremental-vs-recomputed oracle, deep snapshot before/after every query; bounded-exhaustive small graphs + random graphs',
 'C13': 'runtime monitoring: survivor-set oracle computed from the labels before the call + invariants I1-I3 on the pruned graph; bounded-exhaustive small graphs + random graphs with adjacent prunable runs',
 'C14': 'runtime monitoring: identity scan of every node / attacker / nested container of a deep copy + mutation histories on one graph with deep snapshots of the other',
 'C15': 'runtime monitoring: structural comparison of the language graph with the reference language (all ordered pairs / orientations), ill-formed variants must raise, every generated attack-graph edge checked against the language-graph links',
 'C16': 'runtime monitoring: offline comparison of SHA-256 digests of serialised graphs across repeated generation, fresh processes with 5 hash seeds and 20 construction routes (direct API, files, create_attack_graph with every switch combination by keyword and by position); input snapshots before/after',
 'C17': 'runtime monitoring: token-level mutation workload labelled by the grammar itself (counting listeners on the same generated lexer/parser), oracle: erroneous => compile must raise; exhaustive single-token deletions/truncations of the corpus',
 'C18': 'runtime monitoring: differential checker native loader vs 0.0.39 loader vs .sCAD loader on files emitted from one abstract model by inverse translations',
 'C19': 'runtime monitoring: recording stand-in for the database driver + offline isomorphism checker over the recorded subgraph + import round trip served from the recording',
}
NOTE = 'trusted: the independent reference models under mtv/ (ref_sem.py and the per-property oracles), the generators\' well-formedness envelope (DESIGN 2), python-jsonschema-objects / PyYAML / antlr4 runtime as libraries'

props = [json.loads(l) for l in open(os.path.join(V, 'properties.jsonl'))]
have = sorted(os.path.basename(p)[:-3] for p in glob.glob(os.path.join(V, 'mtv/props/C*.py')))
pending = {}
pp = os.path.join(V, 'tools', 'pending.json')
if os.path.exists(pp):
    pending = json.load(open(pp))
checks, na = [], []
for p in props:
    pid = p['id']
    if pid in have and pid not in pending:
        import importlib
        meta = importlib.import_module('mtv.props.' + pid).META
        rule = ' '.join(meta['rule'].split())
        text = ('exploration: the property held on every execution the run produced (counts, classes and samples in the evidence file); '
                'a run is held / violated / inconclusive, never "verified". What is executed and compared: ' + rule)
        tech = TECH[pid]
        checks.append({
            'property_id': pid,
            'quick_cmd': './check %s --tier quick' % pid,
            'thorough_cmd': './check %s --tier thorough' % pid,
            'evidence_file': 'evidence/%s.json' % pid,
            'replay_cmd_template': './check %s --replay {path}' % pid,
            'engine': 'mtv',
            'level_claimed': {'category': 'exploration', 'design_ref': 'DESIGN.md 5/%s' % pid, 'text': text},
            'level_note': NOTE,
            'technique': tech,
        })
    else:
        na.append({'property_id': pid, 'reason': pending.get(pid, 'check not built yet in this round (runtime monitoring applies; see DESIGN.md 5/%s)' % pid)})
man = {
 'version': 1,
 'setup_cmd': "/venv/bin/python -c \"import ast,glob; [ast.parse(open(f).read(), f) for f in glob.glob('mtv/**/*.py', recursive=True)]\"",
 'hooks': {
  'guard': 'MAL_TOOLBOX_VERIF',
  'enable': 'no source hook: all observation is harness-side (wrappers on module functions / class methods, sys.monitoring PY_START counters, a stand-in for py2neo.Graph); the runner exports MAL_TOOLBOX_VERIF=1, the repository never reads it',
  'baseline_off_cmd': 'cd /repo && /venv/bin/python -m pytest -ra -q -p no:cacheprovider --timeout=900 --continue-on-collection-errors',
  'source_commits': [],
  'add_only': True,
 },
 'engines': [{'name': 'mtv', 'path': 'mtv/', 'serves_properties': [c['property_id'] for c in checks],
              'kind_free_text': 'runtime monitoring: generated, hostile and stress workloads executed on the real code (fresh processes, working tree of /repo) under lock-step reference models, per-call oracles on wrapped internals, invariants at quiescent points, offline checkers of recorded artefacts'}],
 'checks': checks,
 'notes': 'Every check: ./check <id> [--tier quick|thorough]; VERIF_SEED selects the seed; exit 0 held / 1 VIOLATION / 2 INCONCLUSIVE (nothing may be concluded). Genuine defects found and repaired are listed in known_findings.json (status fixed); see DESIGN.md 7.',
 'not_applicable': na,
}
json.dump(man, open(os.path.join(V, 'MANIFEST.json'), 'w'), indent=1)
print('checks:', [c['property_id'] for c in checks], 'not claimed:', [n['property_id'] for n in na])

#!/venv/bin/python
"""Regenerate MANIFEST.json from the property modules that exist (mtv/props/Cxx.py).
Properties without a module are listed under not_applicable with the reason."""
import glob, json, os, sys
V = os.path.dirname(os.path.dirname(os.path.abspath(__file__)))
sys.path.insert(0, V)

LEVEL = {
 'C01': ('held on K generated (language, model) executions: every nested call of the real step-expression evaluator and every direct call on a sub-expression compared with an independent interval semantics, children/parents of every node compared end-to-end, termination decided as bounded progress with a cycle side-condition',
         'runtime monitoring: per-call oracle on the wrapped recursive evaluator + end-to-end reference comparison over generated workloads'),
 'C02': ('held on K generated executions: node multiset, every node attribute, id / full-name uniqueness and both lookups compared with the reference product asset x folded steps after real generation',
         'runtime monitoring: post-generation invariant + reference-model comparison over generated workloads'),
 'C03': ('held on K random histories of lookups / regenerations / generations: every return value of the real resolver compared with a reference fold on a load-time snapshot, loaded specification deep-compared after every step',
         'runtime monitoring: wrapped resolver with per-call oracle + snapshot comparison at every history step'),
}
NOTE = 'trusted: the independent reference models under mtv/ (ref_sem.py and the per-property oracles), the generators\' well-formedness envelope (DESIGN 2), python-jsonschema-objects / PyYAML / antlr4 runtime as libraries'

props = [json.loads(l) for l in open(os.path.join(V, 'properties.jsonl'))]
have = sorted(os.path.basename(p)[:-3] for p in glob.glob(os.path.join(V, 'mtv/props/C*.py')))
pending = {}
pp = os.path.join(V, 'tools', 'pending.json')
if os.path.exists(pp):
    pending = json.load(open(pp))
checks, na = [], []
for p in props:
    pid = p['id']
    if pid in have and pid not in pending:
        text, tech = LEVEL.get(pid, ('held on K generated executions observed by the monitors described in DESIGN.md 5/%s' % pid,
                                     'runtime monitoring over generated workloads'))
        checks.append({
            'property_id': pid,
            'quick_cmd': './check %s --tier quick' % pid,
            'thorough_cmd': './check %s --tier thorough' % pid,
            'evidence_file': 'evidence/%s.json' % pid,
            'replay_cmd_template': './check %s --replay {path}' % pid,
            'engine': 'mtv',
            'level_claimed': {'category': 'exploration', 'design_ref': 'DESIGN.md 5/%s' % pid, 'text': text},
            'level_note': NOTE,
            'technique': tech,
        })
    else:
        na.append({'property_id': pid, 'reason': pending.get(pid, 'check not built yet in this round (runtime monitoring applies; see DESIGN.md 5/%s)' % pid)})
man = {
 'version': 1,
 'setup_cmd': "/venv/bin/python -c \"import ast,glob; [ast.parse(open(f).read(), f) for f in glob.glob('mtv/**/*.py', recursive=True)]\"",
 'hooks': {
  'guard': 'MAL_TOOLBOX_VERIF',
  'enable': 'no source hook: all observation is harness-side (wrappers on module functions / class methods, sys.monitoring PY_START counters, a stand-in for py2neo.Graph); the runner exports MAL_TOOLBOX_VERIF=1, the repository never reads it',
  'baseline_off_cmd': 'cd /repo && /venv/bin/python -m pytest -ra -q -p no:cacheprovider --timeout=900 --continue-on-collection-errors',
  'source_commits': [],
  'add_only': True,
 },
 'engines': [{'name': 'mtv', 'path': 'mtv/', 'serves_properties': [c['property_id'] for c in checks],
              'kind_free_text': 'runtime monitoring: generated, hostile and stress workloads executed on the real code (fresh processes, working tree of /repo) under lock-step reference models, per-call oracles on wrapped internals, invariants at quiescent points, offline checkers of recorded artefacts'}],
 'checks': checks,
 'notes': 'Every check: ./check <id> [--tier quick|thorough]; VERIF_SEED selects the seed; exit 0 held / 1 VIOLATION / 2 INCONCLUSIVE (nothing may be concluded). Genuine defects found and repaired are listed in known_findings.json (status fixed); see DESIGN.md 7.',
 'not_applicable': na,
}
json.dump(man, open(os.path.join(V, 'MANIFEST.json'), 'w'), indent=1)
print('checks:', [c['property_id'] for c in checks], 'not claimed:', [n['property_id'] for n in na])

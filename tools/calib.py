#!/usr/bin/env python3
"""usage: tools/calib.py Cxx [seeds...]  - run the quick check for several seeds, print for every counter the minimum
over the seeds, the current quick quota and (for class:/env: counters without a quota) a suggested quota = min // 4"""
import importlib, os, re, subprocess, sys
here = os.path.dirname(os.path.dirname(os.path.abspath(__file__)))
sys.path.insert(0, here)
prop = sys.argv[1]
write = '--write' in sys.argv
seeds = [a for a in sys.argv[2:] if a != '--write'] or ['0', '1', '2']
vals = {}
for s in seeds:
    env = dict(os.environ, VERIF_SEED=s, MTV_PRINT_COUNTERS='.')
    out = subprocess.run([os.path.join(here, 'check'), prop, '--tier', 'quick', '--no-evidence'], env=env, capture_output=True, text=True).stdout
    print(out.splitlines()[0])
    seen = {}
    for m in re.finditer(r'^  counter (.+)=(\d+)$', out, re.M):
        seen[m.group(1)] = int(m.group(2))
    for k in set(seen) | set(vals):
        vals.setdefault(k, []).append(seen.get(k, 0))
    for k in vals:
        if len(vals[k]) < seeds.index(s) + 1:
            vals[k] = [0] * (seeds.index(s) + 1 - len(vals[k])) + vals[k]
meta = importlib.import_module('mtv.props.' + prop).META
q = meta.get('quotas', {}).get('quick', {})
for k in sorted(vals):
    mn = min(vals[k])
    cur = q.get(k)
    flag = ''
    if cur is not None and mn < 2 * cur:
        flag = '   <-- TIGHT'
    if cur is None and (k.startswith('class:') or k.startswith('env:')):
        flag = '   suggest %d' % (mn // 4)
    print('%-75s min=%-8d quota=%s%s' % (k, mn, cur, flag))

if write:
    import json
    path = os.path.join(here, 'mtv', 'quotas_extra.json')
    data = json.load(open(path)) if os.path.exists(path) else {}
    out = {}
    for k in sorted(vals):
        mn = min(vals[k])
        if k in q or not (k.startswith('class:') or k.startswith('env:')):
            continue
        if 'interrupted' in k or 'skipped' in k or mn < 15:
            continue          # timing-dependent or too rare to demand
        out[k] = mn // 5
    data[prop] = out
    json.dump(data, open(path, 'w'), indent=1, sort_keys=True)
    print('wrote %d quotas for %s' % (len(out), prop))

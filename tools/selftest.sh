#!/bin/sh
# Self-validation of the monitors (DESIGN 8): every regression patch (mutants/) and every seeded change
# (seeded/) is applied to /repo in turn, the quick check of each property listed in mutants/MAP.txt is run
# and must exit 1 with a VIOLATION line; /repo is restored after each. Not a registered check.
# usage: tools/selftest.sh [grep-pattern]
cd "$(dirname "$0")/.."
pat="${1:-.}"
killed=0; missed=0
grep -v '^#' mutants/MAP.txt | grep -E "$pat" | while read patch props; do
  for p in $props; do
    out=$(tools/try_mutant.sh "$patch" "$p" 2>&1); rc=$?
    key=$(echo "$out" | grep -m1 "key=" | sed 's/ *key=//')
    if echo "$out" | grep -q "^--- $p rc=1"; then echo "KILLED  $p  $patch  [$key]"; 
    elif echo "$out" | grep -q "PATCH-DOES-NOT-APPLY"; then echo "NOAPPLY $p  $patch";
    else echo "MISSED  $p  $patch  $(echo "$out" | grep -m1 -E 'rc=|INCONCL' | cut -c1-120)"; fi
  done
done

#!/bin/sh
# usage: tools/sweep.sh <tier> <seed> [<seed> ...]   -- runs every check, prints one line per run (+ details when not held)
tier="$1"; shift
cd "$(dirname "$0")/.."
for seed in "$@"; do
  for p in C01 C02 C03 C04 C05 C06 C07 C08 C09 C10 C11 C12 C13 C14 C15 C16 C17 C18 C19; do
    out=$(VERIF_SEED=$seed ./check $p --tier $tier --no-evidence 2>&1); rc=$?
    echo "$out" | grep -E "verdict=" | sed "s/^/rc=$rc /"
    [ $rc -ne 0 ] && echo "$out" | grep -E "^(VIOLATION|INCONCLUSIVE|  key|  what)" | cut -c1-600
  done
done

#!/bin/sh
# usage: tools/try_mutant.sh <patch.diff> <prop> [<prop> ...]
# applies the patch to /repo, runs the quick checks, reverts. Never commits.
set -u
patch="$(realpath "$1")"; shift
cd /repo || exit 9
if ! git diff --quiet; then echo "repo dirty"; exit 9; fi
if ! git apply --check "$patch" 2>/dev/null; then
  if ! git apply --3way "$patch" 2>/dev/null; then echo "PATCH-DOES-NOT-APPLY $patch"; git reset -q --hard HEAD; exit 8; fi
  git reset -q
else
  git apply "$patch"
fi
rc_all=0
for p in "$@"; do
  out=$(cd /verif && MTV_NO_EVIDENCE=1 ./check "$p" --tier quick --no-evidence 2>&1)
  rc=$?
  echo "--- $p rc=$rc"
  echo "$out" | grep -E "^(VIOLATION|INCONCLUSIVE|  key=|KNOWN)" | head -8
  [ $rc -ne 1 ] && rc_all=1
done
git reset -q --hard HEAD
exit $rc_all

"""mtv - runtime monitors for mal-toolbox (see /verif/DESIGN.md)."""

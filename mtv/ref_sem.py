"""Reference semantics of MAL languages and step expressions.

Written from the MAL definition; shares no code with the toolbox.

Lang(spec)        static structure: inheritance, fields, variables, step fold
AModel            abstract instance model (assets, link instances, attackers)
eval_expr(...)    interval evaluation (lo, hi) of a step expression from one asset
"""
from __future__ import annotations

import copy


class Lang:
    def __init__(self, spec: dict, snapshot: bool = True):
        # private deep snapshot: the toolbox must never be able to disturb it
        # (snapshot=False only inside the generators, on dicts nobody else has)
        self.spec = copy.deepcopy(spec) if snapshot else spec
        self.assets = {a['name']: a for a in self.spec['assets']}
        self.order = [a['name'] for a in self.spec['assets']]
        self.parent = {a['name']: a['superAsset'] for a in self.spec['assets']}
        self.assocs = self.spec['associations']
        self._fold_cache = {}

    # ---- inheritance -------------------------------------------------
    def ancestors(self, t):
        """t, parent(t), ... root (reflexive)."""
        out = []
        seen = set()
        while t is not None and t not in seen:
            out.append(t)
            seen.add(t)
            t = self.parent.get(t)
        return out

    def is_sub(self, t, u):
        return u in self.ancestors(t)

    def descendants(self, t):
        return [x for x in self.order if self.is_sub(x, t)]

    def children_of(self, t):
        return [x for x in self.order if self.parent.get(x) == t]

    def lca(self, t, u):
        au = set(self.ancestors(u))
        for x in self.ancestors(t):
            if x in au:
                return x
        return None

    def concrete(self):
        return [n for n in self.order if not self.assets[n]['isAbstract']]

    def depth(self, t):
        return len(self.ancestors(t)) - 1

    # ---- associations -------------------------------------------------
    def fields_of(self, t):
        """{fieldname: [(assoc_index, target_type)]} navigable from type t.

        Field f of an association is navigable from assets on the side
        *opposite* to f; the result are the members of f.
        """
        out = {}
        for i, a in enumerate(self.assocs):
            if self.is_sub(t, a['rightAsset']):
                out.setdefault(a['leftField'], []).append((i, a['leftAsset']))
            if self.is_sub(t, a['leftAsset']):
                out.setdefault(a['rightField'], []).append((i, a['rightAsset']))
        return out

    def assocs_of(self, t):
        """indices of associations in which t or an ancestor takes part"""
        return [i for i, a in enumerate(self.assocs)
                if self.is_sub(t, a['leftAsset']) or self.is_sub(t, a['rightAsset'])]

    def same_signature_groups(self):
        """groups of association indices sharing name AND ordered end types (they
        differ in their fields only): the class-name scheme <name>_<left>_<right>
        cannot tell them apart (F26)"""
        groups = {}
        for i, a in enumerate(self.assocs):
            groups.setdefault((a['name'], a['leftAsset'], a['rightAsset']), []).append(i)
        return [g for g in groups.values() if len(g) > 1]

    def assoc_class_name(self, i):
        """Name of the generated class for association i (duplicate-named
        associations get <name>_<left>_<right>)."""
        a = self.assocs[i]
        same = [b for b in self.assocs if b['name'] == a['name']]
        if len(same) > 1:
            return '%s_%s_%s' % (a['name'], a['leftAsset'], a['rightAsset'])
        return a['name']

    # ---- variables ------------------------------------------------------
    def variable(self, t, name):
        """(declaring type, body) of variable `name` visible from t, or None"""
        for x in self.ancestors(t):
            for v in self.assets[x]['variables']:
                if v['name'] == name:
                    return x, v['stepExpression']
        return None

    def visible_variables(self, t):
        out = {}
        for x in reversed(self.ancestors(t)):
            for v in self.assets[x]['variables']:
                out[v['name']] = (x, v['stepExpression'])
        return out

    # ---- step inheritance fold ----------------------------------------------
    def step_names(self, t):
        """names of the steps t defines or inherits (no copying)"""
        out = []
        for x in reversed(self.ancestors(t)):
            for s in self.assets[x]['attackSteps']:
                if s['name'] not in out:
                    out.append(s['name'])
        return out

    def steps(self, t, copy_result=False):
        """Root-down fold: '->' replaces, '+>' appends, no reaches: untouched.
        Returns an ordered dict name -> step definition (deep private copy)."""
        if t in self._fold_cache:
            return copy.deepcopy(self._fold_cache[t]) if copy_result else self._fold_cache[t]
        chain = list(reversed(self.ancestors(t)))
        out = {}
        for x in chain:
            for s in self.assets[x]['attackSteps']:
                n = s['name']
                if n not in out:
                    out[n] = copy.deepcopy(s)
                elif not s['reaches']:
                    continue
                elif s['reaches']['overrides']:
                    out[n] = copy.deepcopy(s)
                else:
                    cur = out[n]
                    if cur['reaches'] is None:
                        cur['reaches'] = {'overrides': False, 'stepExpressions': []}
                    cur['reaches']['stepExpressions'].extend(
                        copy.deepcopy(s['reaches']['stepExpressions']))
        self._fold_cache[t] = out
        return copy.deepcopy(out) if copy_result else out

    def defenses(self, t):
        """{defense name: default} for type t (1.0 iff declared Enabled)"""
        out = {}
        for n, s in self.steps(t).items():
            if s['type'] == 'defense':
                ttc = s['ttc']
                out[n] = 1.0 if (ttc and ttc.get('name') == 'Enabled') else 0.0
        return out

    # ---- static typing ------------------------------------------------------
    def type_of(self, t, e):
        """Static result type of expression e in context type t, or None if
        ill-typed. attackStep -> (t)."""
        k = e['type']
        if t is None:
            return None
        if k == 'attackStep':
            return t
        if k == 'field':
            c = self.fields_of(t).get(e['name'])
            if not c:
                return None
            return c[0][1]
        if k == 'collect':
            return self.type_of(self.type_of(t, e['lhs']), e['rhs'])
        if k in ('union', 'intersection', 'difference'):
            l = self.type_of(t, e['lhs'])
            r = self.type_of(t, e['rhs'])
            if l is None or r is None:
                return None
            return self.lca(l, r)
        if k == 'subType':
            u = self.type_of(t, e['stepExpression'])
            if u is None or e['subType'] not in self.assets:
                return None
            if not self.is_sub(e['subType'], u):
                return None
            return e['subType']
        if k == 'variable':
            v = self.variable(t, e['name'])
            if v is None:
                return None
            return self.type_of(v[0], v[1])
        if k == 'transitive':
            u = self.type_of(t, e['stepExpression'])
            if u is None:
                return None
            # the context must be of the operand's result type (t <= u);
            # the result is typed by the operand
            return u if self.is_sub(t, u) else self.lca(t, u)
        return None


# ---------------------------------------------------------------------------
class AModel:
    """Abstract instance model.

    assets : list of dict(id, name, type, defenses{name: float}, extras{})
    links  : list of dict(assoc=index into spec['associations'],
                          left=[ids], right=[ids], extras{})
             `left` are the members of the association's leftField (assets of
             leftAsset type), `right` those of rightField.
    attackers: list of dict(id, name, entry_points=[(asset id, [steps])])
    """

    def __init__(self, name='m'):
        self.name = name
        self.assets = []
        self.links = []
        self.attackers = []

    def asset(self, aid):
        for a in self.assets:
            if a['id'] == aid:
                return a
        return None

    def to_json(self):
        return {'name': self.name, 'assets': copy.deepcopy(self.assets),
                'links': copy.deepcopy(self.links),
                'attackers': copy.deepcopy(self.attackers)}

    @classmethod
    def from_json(cls, d):
        m = cls(d.get('name', 'm'))
        m.assets = copy.deepcopy(d['assets'])
        m.links = copy.deepcopy(d['links'])
        m.attackers = [dict(a, entry_points=[(e[0], list(e[1])) for e in a['entry_points']])
                       for a in copy.deepcopy(d.get('attackers', []))]
        return m


def neighbours(lang: Lang, m: AModel, x: int, f: str) -> set:
    """assets reached from asset id x through field f"""
    out = set()
    for l in m.links:
        a = lang.assocs[l['assoc']]
        if a['leftField'] == f and x in l['right']:
            out.update(l['left'])
        if a['rightField'] == f and x in l['left']:
            out.update(l['right'])
    return out


def _closure_plus(step, start: int) -> set:
    """least set S with step(start) <= S and step(S) <= S"""
    seen = set()
    frontier = set(step(start))
    while frontier:
        seen |= frontier
        nxt = set()
        for y in frontier:
            nxt |= step(y)
        frontier = nxt - seen
    return seen


def eval_expr(lang: Lang, m: AModel, x: int, e: dict, budget=None):
    """Interval (lo, hi) of asset-id sets denoted by e from asset x.

    Only `transitive` opens the interval: lo uses closure+, hi closure*.
    """
    k = e['type']
    if k == 'attackStep':
        s = frozenset([x])
        return s, s
    if k == 'field':
        s = frozenset(neighbours(lang, m, x, e['name']))
        return s, s
    if k == 'collect':
        llo, lhi = eval_expr(lang, m, x, e['lhs'])
        lo, hi = set(), set()
        for a in lhi:
            rlo, rhi = eval_expr(lang, m, a, e['rhs'])
            hi |= rhi
            if a in llo:
                lo |= rlo
        return frozenset(lo), frozenset(hi)
    if k == 'union':
        llo, lhi = eval_expr(lang, m, x, e['lhs'])
        rlo, rhi = eval_expr(lang, m, x, e['rhs'])
        return llo | rlo, lhi | rhi
    if k == 'intersection':
        llo, lhi = eval_expr(lang, m, x, e['lhs'])
        rlo, rhi = eval_expr(lang, m, x, e['rhs'])
        return llo & rlo, lhi & rhi
    if k == 'difference':
        llo, lhi = eval_expr(lang, m, x, e['lhs'])
        rlo, rhi = eval_expr(lang, m, x, e['rhs'])
        return llo - rhi, lhi - rlo
    if k == 'subType':
        lo, hi = eval_expr(lang, m, x, e['stepExpression'])
        keep = lambda s: frozenset(a for a in s if lang.is_sub(m.asset(a)['type'], e['subType']))
        return keep(lo), keep(hi)
    if k == 'variable':
        t = m.asset(x)['type']
        v = lang.variable(t, e['name'])
        if v is None:
            raise KeyError('variable %s not visible from %s' % (e['name'], t))
        return eval_expr(lang, m, x, v[1])
    if k == 'transitive':
        sub = e['stepExpression']
        lo = _closure_plus(lambda y: eval_expr(lang, m, y, sub)[0], x)
        hi = _closure_plus(lambda y: eval_expr(lang, m, y, sub)[1], x) | {x}
        return frozenset(lo), frozenset(hi)
    raise ValueError('unknown expression type %r' % k)


def eval_set(lang, m, xs, e):
    """element-wise lift: (union of lo, union of hi) over the input set"""
    lo, hi = set(), set()
    for x in xs:
        a, b = eval_expr(lang, m, x, e)
        lo |= a
        hi |= b
    return frozenset(lo), frozenset(hi)


def final_step(e):
    """name of the attack step a reaches-expression ends with (or None)"""
    k = e['type']
    if k == 'attackStep':
        return e['name']
    if k == 'collect':
        return final_step(e['rhs'])
    if k in ('subType', 'transitive'):
        return final_step(e['stepExpression'])
    return None


def has_cycle_through(lang, m, x, e):
    """Does some `transitive` sub-expression reachable while evaluating e from
    x see a cycle of its operand?  Used as the side condition that turns
    resource exhaustion into a termination violation (DESIGN C01)."""
    found = [False]

    def walk(xs, e):
        k = e['type']
        if k in ('attackStep',):
            return xs
        if k == 'field':
            out = set()
            for y in xs:
                out |= neighbours(lang, m, y, e['name'])
            return out
        if k == 'collect':
            return walk(walk(xs, e['lhs']), e['rhs'])
        if k in ('union', 'intersection', 'difference'):
            return walk(xs, e['lhs']) | walk(xs, e['rhs'])
        if k == 'subType':
            return walk(xs, e['stepExpression'])
        if k == 'variable':
            out = set()
            for y in xs:
                v = lang.variable(m.asset(y)['type'], e['name'])
                if v:
                    out |= walk({y}, v[1])
            return out
        if k == 'transitive':
            sub = e['stepExpression']
            reach = set()
            frontier = set(xs)
            while frontier:
                nxt = set()
                for y in frontier:
                    nxt |= walk({y}, sub)
                if nxt & (reach | set(xs)):
                    found[0] = True
                frontier = nxt - reach
                reach |= nxt
            return reach | set(xs)
        return set()

    walk({x}, e)
    return found[0]


def expr_kinds(e, acc=None):
    acc = acc if acc is not None else {}
    if isinstance(e, dict):
        if 'type' in e:
            acc[e['type']] = acc.get(e['type'], 0) + 1
        for v in e.values():
            expr_kinds(v, acc)
    elif isinstance(e, list):
        for v in e:
            expr_kinds(v, acc)
    return acc

"""Wrapper core: call/return events at API boundaries, quiescent-point hooks,
reach counters on code objects (sys.monitoring).

Monitors never raise through the code under test: failures are collected.
"""
from __future__ import annotations

import functools
import sys
import threading

_tls = threading.local()


class Watch:
    """Replace owner.name by a recording wrapper.

    before(args, kwargs) -> token        called before the real function
    after(token, args, kwargs, result)   called after a normal return
    on_raise(token, args, kwargs, exc)   called after an exception
    outermost=True: hooks only fire when no other outermost watch is active
    on this thread (quiescent points).
    """

    def __init__(self, owner, name, before=None, after=None, on_raise=None,
                 outermost=False, group='default'):
        self.owner, self.name = owner, name
        self.orig = owner.__dict__[name] if isinstance(owner, type) else getattr(owner, name)
        self.before, self.after, self.on_raise = before, after, on_raise
        self.outermost = outermost
        self.group = group
        self.calls = 0
        self.errors = []      # monitor-internal failures (never raised through)
        raw = self.orig
        self.kind = None
        if isinstance(raw, staticmethod):
            self.kind, raw = 'static', raw.__func__
        elif isinstance(raw, classmethod):
            self.kind, raw = 'class', raw.__func__
        self.raw = raw
        w = self

        @functools.wraps(raw)
        def wrapper(*args, **kwargs):
            w.calls += 1
            depth_key = 'depth_' + w.group
            depth = getattr(_tls, depth_key, 0)
            active = (not w.outermost) or depth == 0
            token = None
            if w.outermost:
                setattr(_tls, depth_key, depth + 1)
            try:
                if active and w.before:
                    try:
                        token = w.before(args, kwargs)
                    except Exception as exc:  # monitor bug
                        w.errors.append(('before', repr(exc)))
                try:
                    res = raw(*args, **kwargs)
                except BaseException as exc:
                    if w.outermost:
                        setattr(_tls, depth_key, depth)
                    if active and w.on_raise:
                        try:
                            w.on_raise(token, args, kwargs, exc)
                        except Exception as e2:
                            w.errors.append(('on_raise', repr(e2)))
                    raise
                if w.outermost:
                    setattr(_tls, depth_key, depth)
                if active and w.after:
                    try:
                        w.after(token, args, kwargs, res)
                    except Exception as exc:
                        w.errors.append(('after', repr(exc)))
                return res
            finally:
                if w.outermost:
                    setattr(_tls, depth_key, depth)

        wrapper.__mtv_watch__ = self
        self.wrapper = wrapper
        if self.kind == 'static':
            setattr(owner, name, staticmethod(wrapper))
        elif self.kind == 'class':
            setattr(owner, name, classmethod(wrapper))
        else:
            setattr(owner, name, wrapper)

    def remove(self):
        setattr(self.owner, self.name, self.orig)


def code_of(f):
    f = getattr(f, '__func__', f)
    w = getattr(f, '__mtv_watch__', None)
    if w is not None:
        return w.raw.__code__
    f = getattr(f, '__wrapped__', f)
    return f.__code__


class Reach:
    """PY_START counters on the code objects of the anchored functions.

    A deciding function entered 0 times makes the run inconclusive."""

    TOOL = 3

    def __init__(self):
        self.counts = {}
        self.codes = {}
        self.on = False

    def add(self, label, func):
        if func is None:      # a helper the tree under test does not have (any more): nothing to count
            return
        code = code_of(func)
        self.codes[code] = label
        self.counts.setdefault(label, 0)
        if self.on:
            sys.monitoring.set_local_events(self.TOOL, code, sys.monitoring.events.PY_START)

    def start(self):
        mon = sys.monitoring
        if mon.get_tool(self.TOOL) is None:
            mon.use_tool_id(self.TOOL, 'mtv-reach')

        def cb(code, offset):
            label = self.codes.get(code)
            if label is not None:
                self.counts[label] += 1

        mon.register_callback(self.TOOL, mon.events.PY_START, cb)
        for code in self.codes:
            mon.set_local_events(self.TOOL, code, mon.events.PY_START)
        self.on = True

    def stop(self):
        mon = sys.monitoring
        for code in self.codes:
            mon.set_local_events(self.TOOL, code, 0)
        mon.register_callback(self.TOOL, mon.events.PY_START, None)
        self.on = False

    def zero(self):
        return [k for k, v in self.counts.items() if v == 0]

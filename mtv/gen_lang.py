"""Random well-formed MAL languages as malc-shaped specification dicts.

Everything generated here is inside "what malc accepts": single inheritance,
well-typed step expressions (type-directed generation), no variable shadowing,
steps named in an expression exist on its static target type, redefinitions
keep the step type.  See DESIGN 2.1.
"""
from __future__ import annotations

import copy

from .ref_sem import Lang

ASSET_NAMES = ['Host', 'Net', 'Usr', 'Dat', 'App', 'Svc', 'Key', 'Zon', 'Vuln', 'Idp',
               'Asset1', 'Eve', 'Cat', 'Ice', 'Ant', 'x9', 'AA', 'a', 'c_', 'E2']
STEP_NAMES = ['access', 'read', 'write', 'deny', 'connect', 'attempt', 'use', 'own',
              'bypass', 'scan', 'leak', 'spoof', 'drop', 'exec', 'auth', 'pivot']
DEF_NAMES = ['hardened', 'patched', 'encrypted', 'mfa', 'audited']
EX_NAMES = ['hasPeer', 'noPeer', 'linked', 'orphan']
DISTS = [('Exponential', 1), ('Bernoulli', 1), ('Gamma', 2), ('LogNormal', 2),
         ('Uniform', 2), ('Binomial', 2), ('Pareto', 2), ('TruncatedNormal', 2),
         ('EasyAndCertain', 0), ('HardAndUncertain', 0), ('VeryHardAndCertain', 0),
         ('Infinity', 0), ('Zero', 0)]
NUMS = [0.0, 1.0, 2.0, 3.0, 0.5, 0.25, 0.1, 10.0, 100.0, 0.125, 7.0, 42.0, 0.75]
MULTS = [(0, 1), (1, 1), (0, None), (1, None), (0, None), (0, 2), (1, 3), (2, 2), (2, 4)]
TAGS = ['hidden', 'debug', 'trace', 'suppress', 't1']


class Cfg:
    """generation knobs; defaults give the full envelope"""

    def __init__(self, **kw):
        self.max_assets = 6
        self.max_assocs = 6
        self.max_depth = 3              # expression nesting
        self.setops = True
        self.subtype = True
        self.variables = True
        self.transitive = True
        self.transitive_nonfield = 0.0  # probability of e* over a non-field operand
        self.dup_assoc_names = 0.25
        self.same_sig_dups = 0.0        # same name AND same end types (C15/F26)
        self.composite_ttc = True
        self.exist_steps = True
        self.inherit_bias = 0.6
        self.same_field_both_ends = 0.0 # X [f] <-- A --> [f] Y (the class factory cannot represent it: C06 known finding)
        self.nested_names = 0.25        # asset names that are prefixes of one another (Net / Network), step names that make 'Net'+'workAccess' == 'Network'+'Access'
        self.meta = True
        self.shared_field_names = 0.2   # field names reused across unrelated families
        self.setop_under_collect = 0.3  # collect whose right side is a set operator over two fields
        self.large = False              # the large stratum: many assets, one long inheritance chain, deep expressions
        for k, v in kw.items():
            if not hasattr(self, k):
                raise TypeError(k)
            setattr(self, k, v)


def gen_ttc(rng, cfg, depth=0):
    r = rng.random()
    if not cfg.composite_ttc or r < 0.55 or depth >= 2:
        name, n = rng.choice(DISTS)
        return {'type': 'function', 'name': name,
                'arguments': [rng.choice(NUMS) for _ in range(n)]}
    if r < 0.65:
        return {'type': 'number', 'value': rng.choice(NUMS)}
    op = rng.choice(['addition', 'subtraction', 'multiplication', 'division', 'exponentiation'])
    return {'type': op, 'lhs': gen_ttc(rng, cfg, depth + 1), 'rhs': gen_ttc(rng, cfg, depth + 1)}


class LangGen:
    def __init__(self, rng, cfg: Cfg | None = None):
        self.rng = rng
        self.cfg = cfg or Cfg()

    # ------------------------------------------------------------------
    def generate(self) -> dict:
        rng, cfg = self.rng, self.cfg
        n = rng.randint(1, cfg.max_assets)
        if cfg.large:
            n = rng.randint(10, 16)
        names = rng.sample(ASSET_NAMES, n)
        chain = rng.choice([8, 11, n - 1])
        self.nested = []
        if n >= 2 and rng.random() < cfg.nested_names:
            for _ in range(rng.randint(1, 2)):
                i = rng.randrange(1, n)
                j = rng.randrange(0, i)
                sfx = rng.choice(['work', 'Group', '2', 'X', 'a', '_'])
                if names[j] + sfx not in names and not any(names[i] in (a, b) for a, b, _s in self.nested):
                    names[i] = names[j] + sfx
                    self.nested.append((names[j], names[i], sfx))
        cats = ['Core'] if rng.random() < 0.6 else ['Core', 'Extra']
        assets = []
        for i, nm in enumerate(names):
            sup = None
            if i > 0 and rng.random() < cfg.inherit_bias:
                sup = rng.choice(names[:i])
            if cfg.large and 0 < i <= chain:
                sup = names[i - 1]          # one chain of depth 8 - 15
            assets.append({
                'name': nm, 'meta': self._meta(), 'category': rng.choice(cats),
                'isAbstract': rng.random() < 0.2, 'superAsset': sup,
                'variables': [], 'attackSteps': []})
        for a_name, b_name, _sfx in self.nested:
            if rng.random() < 0.6 and not cfg.large:
                # siblings (or both roots)
                by = {a['name']: a for a in assets}
                by[b_name]['superAsset'] = by[a_name]['superAsset']
        if all(a['isAbstract'] for a in assets):
            rng.choice(assets)['isAbstract'] = False
        # assets are emitted grouped by category (that is what a MAL file gives)
        assets.sort(key=lambda a: cats.index(a['category']))
        spec = {
            'formatVersion': '1.0.0',
            # half of the languages share one id and version (as the two shipped coreLang
            # variants do): nothing may be keyed by them
            'defines': ({'id': 'org.mtv.lang', 'version': '1.0.0'} if rng.random() < 0.5 else
                        {'id': 'org.mtv.gen%d' % rng.randrange(10 ** 6),
                         'version': '%d.%d.%d' % (rng.randint(0, 3), rng.randint(0, 9), rng.randint(0, 9))}),
            'categories': [{'name': c, 'meta': self._meta()} for c in cats],
            'assets': assets,
            'associations': [],
        }
        if not any(a['category'] == 'Extra' for a in assets) and len(cats) == 2:
            spec['categories'] = spec['categories'][:1]
            cats = cats[:1]
        self.spec = spec
        self._gen_assocs()
        self.lang = Lang(spec, snapshot=False)           # structure so far (assets + associations)
        self._gen_step_skeleton()
        self.lang = Lang(spec, snapshot=False)
        self._gen_variables()
        self.lang = Lang(spec, snapshot=False)
        self._gen_expressions()
        return spec

    def _meta(self):
        rng = self.rng
        if not self.cfg.meta or rng.random() < 0.6:
            return {}
        out = {}
        for k in rng.sample(['user', 'developer', 'modeler'], rng.randint(1, 2)):
            out[k] = rng.choice(['text', 'Some info.', 'a b  c', 'x: y', "it's", 'ünï', '// not a comment', ''])
            if rng.random() < 0.12:
                # a MAL string may hold anything but a double quote
                out[k] = rng.choice(['line1\r\nline2', 'cr\rx', 'two\nlines', 'ff\x0cx', 'nel\x85x', 'ls\u2028x', ' padded ', 'tab\tx', '/* x */',
                                     'Cafe\u0301', '\ufeffbom', 'back\\slash', 'nbsp\xa0', '\\n'])
        return out

    # ------------------------------------------------------------------
    def _gen_assocs(self):
        rng, cfg, spec = self.rng, self.cfg, self.spec
        names = [a['name'] for a in spec['assets']]
        n = rng.randint(0, cfg.max_assocs)
        if len(names) and n == 0 and rng.random() < 0.7:
            n = 1
        assoc_names = []
        fld = rng.choice([0, 0, 1, 4, 10])      # the same association name has other field names in another language
        tmp = Lang(spec, snapshot=False)
        for i in range(n):
            l, r = rng.choice(names), rng.choice(names)
            if rng.random() < 0.35:
                # closure-friendly: right end within the left end's family
                fam = tmp.descendants(l)
                r = rng.choice(fam)
            if assoc_names and rng.random() < cfg.dup_assoc_names:
                nm = rng.choice(assoc_names)
            else:
                nm = 'Assoc%d' % i
            sig = (nm, l, r)
            existing = [(a['name'], a['leftAsset'], a['rightAsset']) for a in spec['associations']]
            flipped = (nm, r, l)
            if flipped in existing and l != r and rng.random() < 0.5:
                nm = 'Assoc%d' % i        # (else: the same name is declared for (X, Y) and for (Y, X))
            elif sig in existing and rng.random() >= cfg.same_sig_dups:
                # same name AND same end types (only the fields differ) is kept with
                # probability same_sig_dups (C06 / C15: F26)
                nm = 'Assoc%d' % i
            # class names <name>_<L>_<R> of duplicate-named associations must
            # not collide with a plain association name
            assoc_names.append(nm)
            lm, rm = rng.choice(MULTS), rng.choice(MULTS)
            lfield, rfield = 'f%d' % fld, 'f%d' % (fld + 1)
            fld += 2
            same_named = [a for a in spec['associations'] if a['name'] == nm]
            if spec['associations'] and (rng.random() < cfg.shared_field_names or (same_named and rng.random() < 0.4)):
                # reuse the two field names of an earlier association on
                # unrelated asset types: legal as long as no asset type ends up
                # with two fields of the same name (a field is held by the
                # descendants of the opposite end)
                # (preferably those of an association with the same name: name and both field names equal, end types differ)
                other = rng.choice(same_named if same_named and rng.random() < 0.7 else spec['associations'])
                cand = (other['leftField'], other['rightField']) if rng.random() < 0.7 else (other['rightField'], other['leftField'])

                def holders(fname):
                    out = set()
                    for a in spec['associations']:
                        if a['leftField'] == fname:
                            out |= set(tmp.descendants(a['rightAsset']))
                        if a['rightField'] == fname:
                            out |= set(tmp.descendants(a['leftAsset']))
                    return out
                if (not (holders(cand[0]) & set(tmp.descendants(r))) and not (holders(cand[1]) & set(tmp.descendants(l)))
                        and cand[0] != cand[1]
                        and not (set(tmp.descendants(l)) & set(tmp.descendants(r)))):
                    lfield, rfield = cand
            elif rng.random() < cfg.same_field_both_ends and not (set(tmp.descendants(l)) & set(tmp.descendants(r))):
                # X [f] <-- A --> [f] Y : both ends use the same field name (legal: the two families are disjoint)
                rfield = lfield
            spec['associations'].append({
                'name': nm, 'meta': self._meta(),
                'leftAsset': l, 'leftField': lfield,
                'leftMultiplicity': {'min': lm[0], 'max': lm[1]},
                'rightAsset': r, 'rightField': rfield,
                'rightMultiplicity': {'min': rm[0], 'max': rm[1]}})

    # ------------------------------------------------------------------
    def _gen_step_skeleton(self):
        """names, types, ttc, tags and the kind of reaches clause; expressions later"""
        rng, cfg, spec, lang = self.rng, self.cfg, self.spec, self.lang
        # process parents before children
        order = sorted(lang.order, key=lambda t: lang.depth(t))
        self.kind = {}   # (asset, step) -> 'none' | 'override' | 'extend'
        inherited = {}   # asset -> {step name: type}
        for t in order:
            a = lang.assets[t]
            a = next(x for x in spec['assets'] if x['name'] == t)
            inh = dict(inherited.get(lang.parent[t], {})) if lang.parent[t] else {}
            steps = []
            if lang.parent[t] and rng.random() < 0.12:
                # a sub-type that declares no step of its own ("asset Device extends Base {}")
                a['attackSteps'] = []
                inherited[t] = inh
                continue
            # redefinitions of inherited steps
            for sname, sdef in inh.items():
                r = rng.random()
                if r < 0.45:
                    continue
                kind = rng.choice(['none', 'override', 'extend', 'extend'])
                st = copy.deepcopy(sdef)
                st['reaches'] = None
                st['meta'] = {}
                if kind == 'override' and st['type'] in ('or', 'and'):
                    # an override replaces the whole definition: tags/ttc may differ
                    if rng.random() < 0.5:
                        st['tags'] = rng.sample(TAGS, rng.randint(0, 2))
                    if rng.random() < 0.5:
                        st['ttc'] = gen_ttc(rng, cfg) if rng.random() < 0.7 else None
                if kind == 'override' and st['type'] == 'defense' and rng.random() < 0.6:
                    # ... for a defense: Enabled <-> Disabled / none
                    st['ttc'] = rng.choice([{'type': 'function', 'name': 'Enabled', 'arguments': []},
                                            {'type': 'function', 'name': 'Disabled', 'arguments': []}, None])
                self.kind[(t, sname)] = kind
                steps.append(st)
            # new steps
            for _ in range(rng.randint(0 if inh else 1, 4)):
                r = rng.random()
                if r < 0.55:
                    pool, typ = STEP_NAMES, rng.choice(['or', 'or', 'and'])
                elif r < 0.8 or not cfg.exist_steps:
                    pool, typ = DEF_NAMES, 'defense'
                else:
                    pool, typ = EX_NAMES, rng.choice(['exist', 'notExist'])
                cand = [n for n in pool if n not in inh and n not in [x['name'] for x in steps]]
                if not cand:
                    continue
                sname = rng.choice(cand)
                st = {'name': sname, 'meta': {}, 'type': typ, 'tags': [], 'risk': None,
                      'ttc': None, 'requires': None, 'reaches': None}
                if cfg.meta and rng.random() < 0.3:
                    st['meta'] = self._meta()
                    if rng.random() < 0.5:
                        st['meta']['mitre'] = rng.choice(['T1078', 'T1021.001', 'TA0001'])
                if rng.random() < 0.3:
                    st['tags'] = rng.sample(TAGS, rng.randint(1, 2))
                if typ == 'defense':
                    r2 = rng.random()
                    if r2 < 0.35:
                        st['ttc'] = {'type': 'function', 'name': 'Enabled', 'arguments': []}
                    elif r2 < 0.7:
                        st['ttc'] = {'type': 'function', 'name': 'Disabled', 'arguments': []}
                elif typ in ('or', 'and'):
                    if rng.random() < 0.5:
                        st['ttc'] = gen_ttc(rng, cfg)
                    if rng.random() < 0.25:
                        cia = rng.sample(['isConfidentiality', 'isIntegrity', 'isAvailability'], rng.randint(1, 3))
                        st['risk'] = {'isConfidentiality': 'isConfidentiality' in cia,
                                      'isIntegrity': 'isIntegrity' in cia,
                                      'isAvailability': 'isAvailability' in cia}
                self.kind[(t, sname)] = rng.choice(['none', 'override', 'override', 'override'])
                steps.append(st)
            rng.shuffle(steps)
            a['attackSteps'] = steps
            inh2 = dict(inh)
            for st in steps:
                if st['name'] not in inh2:
                    inh2[st['name']] = copy.deepcopy(st)
                elif self.kind[(t, st['name'])] == 'override':
                    inh2[st['name']] = copy.deepcopy(st)
            inherited[t] = inh2
        # concatenation clashes: A = 'Net', B = 'Network' with a step S: A also gets a step 'work'+S
        self.clash_steps = []
        by = {a['name']: a for a in spec['assets']}
        for a_name, b_name, sfx in getattr(self, 'nested', []):
            own = [st for st in by[b_name]['attackSteps'] if st['type'] in ('or', 'and')]
            if not own or rng.random() < 0.3 or not sfx[0].isalpha():
                continue
            new = sfx + rng.choice(own)['name']
            if any(st['name'] == new for a in spec['assets'] for st in a['attackSteps']):
                continue
            by[a_name]['attackSteps'].append({'name': new, 'meta': {}, 'type': 'or', 'tags': [], 'risk': None,
                                              'ttc': None, 'requires': None, 'reaches': None})
            self.kind[(a_name, new)] = 'override'
            self.clash_steps.append((a_name, new))

    # ------------------------------------------------------------------
    def _gen_variables(self):
        rng, cfg, spec, lang = self.rng, self.cfg, self.spec, self.lang
        if not cfg.variables:
            return
        order = sorted(lang.order, key=lambda t: lang.depth(t))
        vid = {}      # per inheritance tree: names never shadow inside a tree, but unrelated trees reuse them
        for t in order:
            a = next(x for x in spec['assets'] if x['name'] == t)
            root = lang.ancestors(t)[-1]
            for _ in range(rng.choice([0, 0, 1, 1, 2])):
                self.lang = Lang(spec, snapshot=False)
                e = self._gen_nav(t, rng.randint(0, cfg.max_depth), allow_var=True)
                if e is None:
                    continue
                a['variables'].append({'name': 'v%d' % vid.get(root, 0), 'stepExpression': e[0]})
                vid[root] = vid.get(root, 0) + 1

    # ------------------------------------------------------------------
    def _gen_expressions(self):
        rng, cfg, spec = self.rng, self.cfg, self.spec
        lang0 = Lang(spec, snapshot=False)
        order = sorted(lang0.order, key=lambda t: lang0.depth(t))
        for t in order:
            a = next(x for x in spec['assets'] if x['name'] == t)
            for st in a['attackSteps']:
                kind = self.kind[(t, st['name'])]
                inh = self._inherited(t, st['name'])
                if inh is not None and inh['type'] != st['type']:
                    # the ancestor was degraded (exist -> or): follow it
                    st['type'] = inh['type']
                    st['requires'] = None
                if st['type'] in ('exist', 'notExist'):
                    # exactly one requirement (fields only)
                    e = None
                    if inh is None or kind == 'override':
                        e = self._gen_nav(t, rng.randint(0, cfg.max_depth), allow_var=True)
                    if e is not None:
                        st['requires'] = {'overrides': True, 'stepExpressions': [e[0]]}
                    elif inh is not None:
                        # redefinitions that do not replace keep the ancestor's requirement
                        st['requires'] = copy.deepcopy(inh['requires'])
                    else:
                        # nothing navigable here: make it an ordinary step
                        st['type'] = 'or'
                        st['requires'] = None
                if inh is not None and st['type'] == 'defense' and kind != 'override':
                    # a re-declaration that replaces ('->') may flip Enabled / Disabled; the others keep the ancestor's
                    st['ttc'] = copy.deepcopy(inh['ttc'])
                if kind == 'none':
                    st['reaches'] = None
                    continue
                exprs = []
                for _ in range(rng.randint(1, 3)):
                    e = self._gen_reach(t)
                    if e is not None:
                        exprs.append(e)
                if not exprs:
                    st['reaches'] = None
                    continue
                st['reaches'] = {'overrides': kind == 'override', 'stepExpressions': exprs}
        for a_name, new in getattr(self, 'clash_steps', []):
            a = next(x for x in spec['assets'] if x['name'] == a_name)
            others = [st for st in a['attackSteps'] if st['name'] != new]
            if others:
                st = rng.choice(others)
                if not st['reaches']:
                    st['reaches'] = {'overrides': False, 'stepExpressions': []}
                st['reaches']['stepExpressions'].append({'type': 'attackStep', 'name': new})

    def _inherited(self, t, sname):
        p = self.lang.parent[t]
        if p is None:
            return None
        return Lang(self.spec, snapshot=False).steps(p, copy_result=False).get(sname)

    # ---- type-directed expression generation ---------------------------------
    def _gen_nav(self, t, depth, allow_var=True):
        """navigation expression (no attackStep) from context type t.
        returns (expr, result type) or None when nothing is navigable"""
        rng, cfg, lang = self.rng, self.cfg, self.lang
        fields = lang.fields_of(t)
        variables = lang.visible_variables(t) if (allow_var and cfg.variables) else {}
        if not fields and not variables:
            return None
        choices = []
        if fields:
            choices += ['field'] * 4
        if variables:
            choices += ['variable'] * 2
        if depth > 0:
            choices += ['collect'] * 3
            if cfg.setops:
                choices += ['setop'] * 3
            if cfg.subtype:
                choices += ['subType'] * 2
            if cfg.transitive:
                choices += ['transitive'] * 2
        for _attempt in range(6):
            k = rng.choice(choices)
            if k == 'field':
                f = rng.choice(sorted(fields))
                return {'type': 'field', 'name': f}, fields[f][0][1]
            if k == 'variable':
                v = rng.choice(sorted(variables))
                ty = lang.type_of(variables[v][0], variables[v][1])
                if ty is None:
                    continue
                return {'type': 'variable', 'name': v}, ty
            if k == 'collect':
                l = self._gen_nav(t, depth - 1, allow_var)
                if l is None:
                    continue
                r = None
                if cfg.setops and rng.random() < cfg.setop_under_collect:
                    # a set operator evaluated from every asset the left side reaches
                    f2 = lang.fields_of(l[1])
                    if f2:
                        names = sorted(f2)
                        a, b = rng.choice(names), rng.choice(names)
                        ta, tb = f2[a][0][1], f2[b][0][1]
                        if lang.lca(ta, tb) is not None:
                            op = rng.choice(['intersection', 'difference', 'union'])
                            r = ({'type': op, 'lhs': {'type': 'field', 'name': a}, 'rhs': {'type': 'field', 'name': b}}, lang.lca(ta, tb))
                if r is None:
                    r = self._gen_nav(l[1], depth - 1, allow_var)
                if r is None:
                    continue
                return {'type': 'collect', 'lhs': l[0], 'rhs': r[0]}, r[1]
            if k == 'setop':
                l = self._gen_nav(t, depth - 1, allow_var)
                if l is None:
                    continue
                r = None
                for _ in range(4):
                    c = self._gen_nav(t, depth - 1, allow_var)
                    if c is not None and lang.lca(l[1], c[1]) is not None:
                        r = c
                        break
                if r is None:
                    # same operand type is always compatible
                    r = (copy.deepcopy(l[0]), l[1])
                op = rng.choice(['union', 'intersection', 'difference'])
                return {'type': op, 'lhs': l[0], 'rhs': r[0]}, lang.lca(l[1], r[1])
            if k == 'subType':
                s = self._gen_nav(t, depth - 1, allow_var)
                if s is None:
                    continue
                subs = lang.descendants(s[1])
                st = rng.choice(subs)
                return {'type': 'subType', 'subType': st, 'stepExpression': s[0]}, st
            if k == 'transitive':
                # e* in context T: the operand is generated in the context of
                # an ancestor-or-self U of T and must yield exactly U.  Then
                # (i) T is a U ("previous asset is of type U", malc's rule),
                # (ii) e can be applied again to everything it returns,
                # (iii) both readings of e* (start asset included or not)
                # only contain assets of type U, which is also the type the
                # toolbox's language graph gives to e*.
                ups = lang.ancestors(t)
                rng.shuffle(ups)
                done = None
                for u in ups:
                    if rng.random() < cfg.transitive_nonfield and depth > 1:
                        for _ in range(3):
                            s = self._gen_nav(u, depth - 1, allow_var)
                            if s is not None and s[0]['type'] != 'field' and s[1] == u:
                                done = ({'type': 'transitive', 'stepExpression': s[0]}, u)
                                break
                        if done:
                            break
                    # (f[U])*: the field leads to a strict ancestor of U, the filter brings it back to U; the walk must
                    # stop at assets that are not U (it is not the same as (f*)[U])
                    cands2 = [f for f, lst in lang.fields_of(u).items() if lst[0][1] != u and lang.is_sub(u, lst[0][1])]
                    if cands2 and cfg.subtype and rng.random() < 0.5:
                        f = rng.choice(sorted(cands2))
                        done = ({'type': 'transitive', 'stepExpression': {'type': 'subType', 'subType': u,
                                                                          'stepExpression': {'type': 'field', 'name': f}}}, u)
                        break
                    cands = [f for f, lst in lang.fields_of(u).items() if lst[0][1] == u]
                    if cands:
                        f = rng.choice(sorted(cands))
                        done = ({'type': 'transitive', 'stepExpression': {'type': 'field', 'name': f}}, u)
                        break
                if done:
                    return done
                continue
        if fields:
            f = rng.choice(sorted(fields))
            return {'type': 'field', 'name': f}, fields[f][0][1]
        return None

    def _step_names_on(self, ty):
        """names of steps (defined or inherited) on type ty, from the skeleton"""
        return Lang(self.spec, snapshot=False).step_names(ty)

    def _gen_reach(self, t):
        """a reaches expression from context type t ending in an attack step"""
        rng, cfg, lang = self.rng, self.cfg, self.lang
        if rng.random() < 0.25:
            names = self._step_names_on(t)
            if names:
                return {'type': 'attackStep', 'name': rng.choice(names)}
        for _ in range(5):
            nav = self._gen_nav(t, rng.randint(0, cfg.max_depth))
            if nav is None:
                break
            e, ty = nav
            target_ty = ty
            names = self._step_names_on(target_ty)
            if not names:
                continue
            return {'type': 'collect', 'lhs': e, 'rhs': {'type': 'attackStep', 'name': rng.choice(names)}}
        names = self._step_names_on(t)
        if names:
            return {'type': 'attackStep', 'name': rng.choice(names)}
        return None

    def _has_open_transitive(self, e):
        if isinstance(e, dict):
            if e.get('type') in ('transitive', 'variable'):
                # variables may hide a transitive
                if e['type'] == 'transitive':
                    return True
                for x in self.lang.order:
                    for v in self.lang.assets[x]['variables']:
                        if v['name'] == e['name'] and self._has_open_transitive(v['stepExpression']):
                            return True
                return False
            return any(self._has_open_transitive(v) for v in e.values())
        return False

    def _safe_type(self, t, e):
        """static type covering both readings of every e* inside e: computed by
        typing with transitive(e) : lca(context, type(e))"""
        lang = self.lang

        def ty(t, e):
            k = e['type']
            if t is None:
                return None
            if k == 'field':
                c = lang.fields_of(t).get(e['name'])
                return c[0][1] if c else None
            if k == 'collect':
                return ty(ty(t, e['lhs']), e['rhs'])
            if k in ('union', 'intersection', 'difference'):
                l, r = ty(t, e['lhs']), ty(t, e['rhs'])
                return lang.lca(l, r) if l and r else None
            if k == 'subType':
                u = ty(t, e['stepExpression'])
                if u is None:
                    return None
                # the filter keeps only assets of the subtype, whichever reading
                return e['subType'] if (lang.is_sub(e['subType'], u) or lang.is_sub(u, e['subType'])) else None
            if k == 'variable':
                v = lang.variable(t, e['name'])
                return ty(v[0], v[1]) if v else None
            if k == 'transitive':
                u = ty(t, e['stepExpression'])
                return lang.lca(t, u) if u else None
            return None
        return ty(t, e)


def gen_language(rng, cfg=None) -> dict:
    return LangGen(rng, cfg).generate()

"""Per-shard result accumulator (serialised to JSON for the parent runner)."""
from __future__ import annotations

import gc
import hashlib
import json
import time


def digest(obj) -> str:
    s = json.dumps(obj, sort_keys=True, default=repr, separators=(',', ':'))
    return hashlib.sha1(s.encode('utf-8', 'surrogatepass')).hexdigest()[:16]


# ---- the environment dimension "log_level = DEBUG" --------------------------------------------------
# Every 8th case of every budgeted workload runs with the maltoolbox logger at DEBUG (what `log_level = DEBUG` in
# maltoolbox.yml gives): code inside `if logger.isEnabledFor(DEBUG)` blocks and the arguments of debug calls are then
# evaluated.  The handlers keep dropping the records (their level is raised), so no log volume is written.
DEBUG_LOG = {'on': False, 'saved': None}


def set_debug_logging(on):
    import logging
    lg = logging.getLogger('maltoolbox')
    if on and not DEBUG_LOG['on']:
        DEBUG_LOG['saved'] = (lg.level, [(h, h.level) for h in lg.handlers])
        for h in lg.handlers:
            h.setLevel(max(h.level, logging.WARNING))
        lg.setLevel(logging.DEBUG)
        DEBUG_LOG['on'] = True
    elif not on and DEBUG_LOG['on']:
        level, handlers = DEBUG_LOG['saved']
        lg.setLevel(level)
        for h, l in handlers:
            h.setLevel(l)
        DEBUG_LOG['on'] = False


class Result:
    MAX_SAMPLES = 3
    MAX_VIOL_PER_KEY = 3

    def __init__(self, prop, tier, seed, shard):
        self.prop, self.tier, self.seed, self.shard = prop, tier, seed, shard
        self.evaluations = 0
        self.nontrivial = set()
        self.counters = {}
        self.samples = []
        self.violations = []      # dict(key, what, case)
        self.viol_counts = {}
        self.inconclusive = []
        self.reach = {}
        self.notes = {}
        self.t0 = time.time()

    def case(self, nontrivial_key=None):
        """one generated execution; nontrivial_key: hashable digest when the
        case is non-trivial by the property's rule, else None"""
        self.evaluations += 1
        if DEBUG_LOG['on']:
            self.counters['env:cases-with-debug-logging'] = self.counters.get('env:cases-with-debug-logging', 0) + 1
        if nontrivial_key is not None:
            self.nontrivial.add(nontrivial_key)

    def count(self, name, n=1):
        self.counters[name] = self.counters.get(name, 0) + n

    def sample(self, obj):
        if len(self.samples) < self.MAX_SAMPLES:
            self.samples.append(obj)

    def violation(self, key, what, case):
        self.viol_counts[key] = self.viol_counts.get(key, 0) + 1
        if self.viol_counts[key] <= self.MAX_VIOL_PER_KEY:
            if DEBUG_LOG['on'] and isinstance(case, dict):
                case = dict(case, _debug_logging=True)
            self.violations.append({'key': key, 'what': what, 'case': case})

    def inconc(self, reason):
        if reason not in self.inconclusive:
            self.inconclusive.append(reason)

    def to_json(self):
        return {
            'prop': self.prop, 'tier': self.tier, 'seed': self.seed, 'shard': self.shard,
            'evaluations': self.evaluations, 'nontrivial': sorted(self.nontrivial),
            'counters': self.counters, 'samples': self.samples,
            'violations': self.violations, 'viol_counts': self.viol_counts,
            'inconclusive': self.inconclusive, 'reach': self.reach, 'notes': self.notes,
            'wall_s': time.time() - self.t0,
        }


class Budget:
    """logical budget (cases) with a generous wall-clock cap; the cap only
    ends generation early, it is never a verdict"""

    def __init__(self, cases, seconds):
        self.cases, self.seconds = cases, seconds
        self.t0 = time.time()
        self.n = 0

    def more(self):
        if self.n >= self.cases:
            return False
        if time.time() - self.t0 > self.seconds:
            return False
        self.n += 1
        set_debug_logging(self.n % 8 == 3)
        if self.n % 16 == 0:
            # every case builds hundreds of schema classes (cyclic garbage); the automatic full collection
            # becomes rarer as the heap grows, uncollected classes then slow down every abc subclass check
            # (python-jsonschema-objects) and memory climbs to gigabytes in long runs
            gc.collect()
        return True

    def timed_out(self):
        return self.n < self.cases and time.time() - self.t0 > self.seconds


def safe(fn):
    """wrap a per-case checker: an exception escaping from it (raised by the
    code under test inside an observation the harness did not expect to fail,
    e.g. _to_dict() of a loaded model) becomes a first-divergence result
    instead of killing the shard"""
    import functools
    import traceback

    @functools.wraps(fn)
    def wrapper(*args, **kwargs):
        try:
            return fn(*args, **kwargs)
        except Exception as exc:
            tb = traceback.extract_tb(exc.__traceback__)
            where = next((f for f in reversed(tb) if '/maltoolbox/' in f.filename), tb[-1])
            return ('unexpected:raised-%s-in-%s' % (type(exc).__name__, where.name),
                    'unexpected %r at %s:%d (%s); %s' % (exc, where.filename, where.lineno, where.name,
                                                         ' | '.join(traceback.format_exc().splitlines()[-6:])))
    return wrapper

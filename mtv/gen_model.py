"""Random abstract instance models for a language + construction of the real Model."""
from __future__ import annotations

from .ref_sem import AModel, Lang

PLAIN = ['srv', 'db', 'pc', 'n', 'gw', 'fw', 'alice', 'bob', 'x', 'y', 'z', 'w', 'web', 'web_prod', 'prod_db', 'db_1']
# characters some library treats as a line break / strips / normalises (str.splitlines, str.strip, YAML, XML, NFC)
EXOTIC = ['web\x85srv', 'a\u2028b', 'a\u2029b', 'pg\x0cbreak', 'v\x0bt', 'fs\x1cx', 'cr\rx', 'crlf\r\nx', '\ufeffbom', 'del\x7fx',
          'nbsp\xa0', '\xa0lead', 'em\u2003', 'zw\u200bj', 'Cafe\u0301', 'Caf\xe9', '\u212b', 'x\x1f', 'bell\x07', '\tlead', 'trail\n',
          ' ', '  ', 'a  b', 'A', 'a', 'ß', 'SS', 'ﬁ', 'fi', '\U0001f600', 'nul\x00x']
HOSTILE = ['a:b', 'n:1', 'ünï', 'yes', 'null', '1e3', '- a', 'a: b', '#x', ' lead', 'tab\tx', '0', '~', 'on',
           'quote"s', "it's", '{}', '[x]', 'x ', 'True', '1_000', '0x10', '', 'multi\nline', '%s', 'ÅÄÖ', '12:30:00']
XML_INVALID = set(chr(c) for c in list(range(0, 9)) + [11, 12] + list(range(14, 32)))
DEF_VALUES = [0.0, 1.0, 1.0, 0.0, 0.5, 0.3, 0.75, 0.01]
# next to, but not at, the two defaults
EDGE_DEF_VALUES = [1e-9, 1e-10, 1e-7, 5e-324, 1e-12, 0.999999999, 1 - 1e-12, 0.9999999999999999, 1 - 1e-7, 0.1 + 0.2, 2.2250738585072014e-308]


class MCfg:
    def __init__(self, **kw):
        self.max_assets = 8
        self.hostile_names = 0.15
        self.dup_names = 0.15
        self.self_links = 0.15
        self.cycles = True
        self.explicit_ids = 0.3     # share of models using explicit ids
        self.zero_neg_ids = True
        self.attackers = 0.5
        self.extras = 0.1
        self.link_density = 1.0
        self.join_ambiguity = 0.06      # names / ids whose joined forms coincide: ('web_prod','db') vs ('web','prod_db')
        self.xml_invalid_chars = True   # names may contain control characters an XML file cannot hold
        self.large = False        # the large stratum: 12-40 assets, fields with up to 12 members, long names, huge ids
        for k, v in kw.items():
            if not hasattr(self, k):
                raise TypeError(k)
            setattr(self, k, v)


def gen_amodel(rng, lang: Lang, cfg: MCfg | None = None) -> AModel:
    """An abstract model valid for the language.

    Names are final names (unique); duplicates are produced *by construction
    order* elsewhere (C02/C05), here every asset already carries the unique
    name it will have in the model.
    """
    cfg = cfg or MCfg()
    m = AModel('model%d' % rng.randrange(1000))
    conc = lang.concrete()
    n = rng.randint(0, cfg.max_assets) if rng.random() < 0.9 else rng.randint(0, 2)
    if cfg.large:
        n = rng.randint(12, 40)
    explicit = rng.random() < cfg.explicit_ids
    used_ids, used_names = set(), set()
    nid = 0
    for i in range(n):
        t = rng.choice(conc)
        if explicit:
            pool = list(range(0, 30)) + ([-1, -5, -2] if cfg.zero_neg_ids else [])
            if cfg.large:
                pool += [100, 255, 256, 1000, 65536, 2 ** 31 - 1, 2 ** 31, 2 ** 31 + 7, 2 ** 63 - 1, 10 ** 12, -2 ** 31] + list(range(30, 80))
            aid = rng.choice([x for x in pool if x not in used_ids])
        else:
            aid = nid
        nid = max(nid, aid + 1)
        used_ids.add(aid)
        r = rng.random()
        if r < cfg.hostile_names:
            base = rng.choice(HOSTILE) if rng.random() < 0.6 else rng.choice([x for x in EXOTIC if cfg.xml_invalid_chars or x.isprintable() or not (set(x) & XML_INVALID)])
        else:
            base = rng.choice(PLAIN)
        if cfg.large and rng.random() < 0.15:
            base = rng.choice(['n' * 300, ' padded ', 'A' * 64 + ':' + 'b' * 64, '0123456789' * 13, 'ﬁle', 'e\u0301'])
        name = base
        k = 0
        while name in used_names:
            k += 1
            name = '%s_%d' % (base, k)
        used_names.add(name)
        defs = {}
        for d, dflt in lang.defenses(t).items():
            if rng.random() < 0.4:
                defs[d] = rng.choice(DEF_VALUES) if rng.random() < 0.88 else rng.choice(EDGE_DEF_VALUES)
                if cfg.large and rng.random() < 0.3:
                    defs[d] = rng.choice([1e-9, 0.999999999, 5e-324, 0.1 + 0.2, 1.0 - 1e-16, 0.30000000000000004])
        a = {'id': aid, 'name': name, 'type': t, 'defenses': defs, 'extras': {}}
        if rng.random() < cfg.extras:
            a['extras'] = rng.choice([{'position': {'x': 1, 'y': 2.5}}, {'note': 'n'}, {'k': [1, 2]}])
        m.assets.append(a)
    amb = []
    if lang.assocs and rng.random() < cfg.join_ambiguity:
        i = rng.randrange(len(lang.assocs))
        la = lang.assocs[i]
        tl = [t for t in lang.descendants(la['leftAsset']) if t in conc]
        tr = [t for t in lang.descendants(la['rightAsset']) if t in conc]
        sep = rng.choice(['_', '_', ':', '-', ' ', '', '.', '/'])
        p, q, r = rng.sample(['web', 'prod', 'db', 'a', 'b1', 'x'], 3)
        quad = [(p + sep + q, tl), (r, tr), (p, tl), (q + sep + r, tr)]
        if tl and tr and not any(nm in used_names for nm, _t in quad) and len({nm for nm, _t in quad}) == 4:
            new_ids = []
            for nm, types in quad:
                aid = nid if not explicit else next(x for x in range(0, 200) if x not in used_ids)
                nid = max(nid, aid + 1)
                used_ids.add(aid)
                used_names.add(nm)
                m.assets.append({'id': aid, 'name': nm, 'type': rng.choice(types), 'defenses': {}, 'extras': {}})
                new_ids.append(aid)
            amb = [{'assoc': i, 'left': [new_ids[0]], 'right': [new_ids[1]], 'extras': {}},
                   {'assoc': i, 'left': [new_ids[2]], 'right': [new_ids[3]], 'extras': {}}]
    _gen_links(rng, lang, m, cfg)
    for l in amb:
        # (unless the random links already contain the pair)
        if not any(x['assoc'] == l['assoc'] and l['left'][0] in x['left'] and l['right'][0] in x['right'] for x in m.links) and \
                not any(lang.assoc_class_name(x['assoc']) == lang.assoc_class_name(l['assoc']) and l['left'][0] in x['left'] and l['right'][0] in x['right'] for x in m.links):
            m.links.append(l)
    m.join_ambiguity = bool(amb)
    if m.assets and rng.random() < cfg.attackers:
        for j in range(rng.randint(1, 3) if not cfg.large else rng.randint(1, 12)):
            eps = []
            for a in rng.sample(m.assets, min(len(m.assets), rng.randint(0, 3))):
                steps = list(lang.steps(a['type']).keys())
                if steps:
                    eps.append((a['id'], rng.sample(steps, min(len(steps), rng.randint(1, 2)))))
            m.attackers.append({'id': None, 'name': 'Attacker%d' % j, 'entry_points': eps})
    return m


def _members(lang, m, t):
    return [a['id'] for a in m.assets if lang.is_sub(a['type'], t)]


def _gen_links(rng, lang, m, cfg):
    """association instances respecting end types, per-instance maximum
    multiplicities, 'no pair linked twice by the same association class' and
    'no asset twice in a field' (what Model._validate_association demands)."""
    if not lang.assocs or not m.assets:
        return
    pairs = {}      # class name -> set of (left id, right id)
    n_inst = int(rng.randint(0, 2 * len(m.assets) + 1) * cfg.link_density)
    for _ in range(n_inst):
        i = rng.randrange(len(lang.assocs))
        a = lang.assocs[i]
        cls = lang.assoc_class_name(i)
        L = _members(lang, m, a['leftAsset'])
        R = _members(lang, m, a['rightAsset'])
        if not L or not R:
            continue
        lmax = a['leftMultiplicity']['max'] or (14 if cfg.large else 4)
        rmax = a['rightMultiplicity']['max'] or (14 if cfg.large else 4)
        r = rng.random()
        cap = 12 if cfg.large else 3
        nl = 1 if r < 0.6 else rng.randint(1, min(lmax, len(L), cap))
        nr = 1 if rng.random() < 0.5 else rng.randint(1, min(rmax, len(R), cap))
        left = rng.sample(L, nl)
        right = rng.sample(R, nr)
        if rng.random() < cfg.self_links:
            both = [x for x in L if x in R]
            if both:
                x = rng.choice(both)
                left = [x]
                right = [x] if rng.random() < 0.6 else list({x, rng.choice(R)})
                right = right[:rmax]
        if not cfg.self_links and set(left) & set(right):
            continue
        if not cfg.cycles:
            pass
        have = pairs.setdefault(cls, set())
        new = {(l, r2) for l in left for r2 in right}
        if new & have:
            continue
        have |= new
        link = {'assoc': i, 'left': left, 'right': right, 'extras': {}}
        m.links.append(link)


# ---------------------------------------------------------------------------
def build_real(lang: Lang, am: AModel, factory, Model, AttackerAttachment=None,
               explicit_ids=None):
    """Build the real Model through the public API from the abstract model.

    explicit_ids: True  -> pass asset_id for every asset
                  False -> never pass it (abstract ids must then be 0..n-1 in order)
                  None  -> pass it only when the id differs from what automatic
                           numbering would give
    Returns (model, {abstract id: real asset object}).
    """
    model = Model(am.name, factory)
    objs = {}
    nxt = 0
    for a in am.assets:
        cls = getattr(factory.ns, a['type'])
        obj = cls(name=a.get('req_name', a['name']))
        for d, v in a['defenses'].items():
            setattr(obj, d, v)
        if a.get('extras'):
            obj.extras = a['extras']
        if explicit_ids is True or (explicit_ids is None and a['id'] != nxt):
            model.add_asset(obj, asset_id=a['id'])
        else:
            model.add_asset(obj)
        nxt = max(nxt, a['id'] + 1)
        objs[a['id']] = obj
        if 'req_name' in a:
            # the implementation chooses the replacement name (S5); adopt it,
            # the caller checks the constraints on the choice
            a['name'] = str(obj.name)
    for l in am.links:
        a = lang.assocs[l['assoc']]
        cls = getattr(factory.ns, lang.assoc_class_name(l['assoc']))
        assoc = cls()
        setattr(assoc, a['leftField'], [objs[i] for i in l['left']])
        setattr(assoc, a['rightField'], [objs[i] for i in l['right']])
        model.add_association(assoc)
    if AttackerAttachment is not None:
        for at in am.attackers:
            att = AttackerAttachment()
            att.entry_points = []
            att.name = at['name']
            for aid, steps in at['entry_points']:
                for s in steps:
                    att.add_entry_point(objs[aid], s)
            if at.get('id') is not None:
                model.add_attacker(att, attacker_id=at['id'])
            else:
                model.add_attacker(att)
            at['id'] = att.id
    return model, objs

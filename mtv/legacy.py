"""Inverse translations: abstract model -> native file / 0.0.39 layout / .sCAD archive."""
from __future__ import annotations

import json
import zipfile
from xml.sax.saxutils import quoteattr


def native_dict(lang, am):
    d = {'metadata': {'name': am.name, 'langVersion': lang.spec['defines']['version'], 'langID': lang.spec['defines']['id']},
         'assets': {}, 'associations': [], 'attackers': {}}
    for a in am.assets:
        e = {'name': a['name'], 'type': a['type']}
        if a['defenses']:
            e['defenses'] = dict(a['defenses'])
        d['assets'][a['id']] = e
    for l in am.links:
        la = lang.assocs[l['assoc']]
        d['associations'].append({lang.assoc_class_name(l['assoc']): {la['leftField']: list(l['left']), la['rightField']: list(l['right'])}})
    for t in am.attackers:
        d['attackers'][t['id']] = {'name': t['name'], 'entry_points': {aid: {'attack_steps': list(st)} for aid, st in t['entry_points']}}
    return d


def legacy_0_0_39_dict(rng, lang, am, counters=None):
    """0.0.39 layout: `metaconcept` keys, nested `association` or inline fields, shorthand assets"""
    def cnt(k):
        if counters is not None:
            counters[k] = counters.get(k, 0) + 1
    d = {'metadata': {'name': am.name, 'langVersion': lang.spec['defines']['version'], 'langID': lang.spec['defines']['id'],
                      'MAL Toolbox Version': '0.0.39'},
         'assets': {}, 'associations': [], 'attackers': {}}
    for a in am.assets:
        if a['name'] == '%s:%s' % (a['type'], a['id']) and not a['defenses'] and rng.random() < 0.8:
            d['assets'][a['id']] = a['type']
            cnt('legacy:shorthand-asset')
            continue
        e = {'name': a['name'], 'metaconcept': a['type']}
        if a['defenses']:
            e['defenses'] = dict(a['defenses'])
        d['assets'][a['id']] = e
    for l in am.links:
        la = lang.assocs[l['assoc']]
        fields = {}
        for f, ids in ((la['leftField'], l['left']), (la['rightField'], l['right'])):
            v = list(ids)
            if len(v) == 1 and rng.random() < 0.4:
                v = v[0]
                cnt('legacy:scalar-target')
            fields[f] = v
        if rng.random() < 0.5:
            d['associations'].append({'metaconcept': lang.assoc_class_name(l['assoc']), 'association': fields})
            cnt('legacy:nested-association')
        else:
            e = {'metaconcept': lang.assoc_class_name(l['assoc'])}
            e.update(fields)
            d['associations'].append(e)
            cnt('legacy:inline-association')
    for t in am.attackers:
        d['attackers'][t['id']] = {'name': t['name'], 'entry_points': {aid: {'attack_steps': list(st)} for aid, st in t['entry_points']}}
    return d


def scad_xml(rng, lang, am, counters=None):
    """securiCAD .eom: objects (incl. Attacker), evidenceAttributes with capitalised
    defense names and `parameters value`, pairwise associations with securiCAD's
    crossed source/target convention, firstSteps / <step>.attacker entry points"""
    def cnt(k):
        if counters is not None:
            counters[k] = counters.get(k, 0) + 1
    out = ['<?xml version="1.0" encoding="utf-8"?>',
           '<com.foreseeti.kernalCAD:XMIObjectModel xmi:version="2.0" xmlns:xmi="http://www.omg.org/XMI" '
           'xmlns:com.foreseeti.kernalCAD="http:///com/foreseeti/ObjectModel.ecore">']
    n = 0
    for a in am.assets:
        n += 1
        out.append('  <objects description="" id="%d" name=%s metaConcept="%s" template="false" exportedId="%d">' % (
            a['id'], quoteattr(a['name']), a['type'], n))
        for s_name, s in lang.steps(a['type']).items():
            cap = s_name[0].upper() + s_name[1:]
            if s['type'] == 'defense' and s_name in a['defenses']:
                out.append('    <evidenceAttributes metaConcept="%s">' % cap)
                out.append('      <evidenceDistribution type="Bernoulli">')
                out.append('        <parameters name="probability" value="%s"/>' % repr(float(a['defenses'][s_name])))
                out.append('      </evidenceDistribution>')
                out.append('    </evidenceAttributes>')
                cnt('scad:defense-value')
            elif s['type'] == 'defense':
                out.append('    <evidenceAttributes metaConcept="%s"><evidenceDistribution type="Bernoulli"><parameters name="probability"/></evidenceDistribution></evidenceAttributes>' % cap)
            else:
                out.append('    <evidenceAttributes metaConcept="%s"/>' % cap)
        out.append('    <existence type="FixedBoolean"><parameters name="fixed" value="1.0"/></existence>')
        out.append('  </objects>')
    for t in am.attackers:
        n += 1
        out.append('  <objects description="" id="%d" name=%s metaConcept="Attacker" template="false" exportedId="%d">' % (t['id'], quoteattr(t['name']), n))
        out.append('    <evidenceAttributes metaConcept="EntryPoint"/>')
        out.append('  </objects>')
    k = 0
    for l in am.links:
        la = lang.assocs[l['assoc']]
        for li in l['left']:
            for ri in l['right']:
                k += 1
                # the field named X holds the object on the *other* attribute side:
                # sourceProperty names the field that contains targetObject
                if rng.random() < 0.5:
                    out.append('  <associations description="" sourceObject="%d" targetObject="%d" id="%d" sourceProperty="%s" targetProperty="%s"/>' % (
                        ri, li, 1000 + k, la['leftField'], la['rightField']))
                else:
                    out.append('  <associations description="" sourceObject="%d" targetObject="%d" id="%d" sourceProperty="%s" targetProperty="%s"/>' % (
                        li, ri, 1000 + k, la['rightField'], la['leftField']))
                    cnt('scad:flipped-orientation')
    for t in am.attackers:
        for aid, steps in t['entry_points']:
            for s in steps:
                k += 1
                if rng.random() < 0.7:
                    out.append('  <associations description="" sourceObject="%d" targetObject="%d" id="%d" sourceProperty="firstSteps" targetProperty="%s.attacker"/>' % (
                        t['id'], aid, 1000 + k, s))
                else:
                    out.append('  <associations description="" sourceObject="%d" targetObject="%d" id="%d" sourceProperty="%s.attacker" targetProperty="firstSteps"/>' % (
                        aid, t['id'], 1000 + k, s))
                    cnt('scad:entry-point-flipped')
    out.append('</com.foreseeti.kernalCAD:XMIObjectModel>')
    return '\n'.join(out) + '\n'


def write_scad(path, xml_text, encoding='utf-8'):
    """the .eom document may be stored in any encoding its XML declaration names (the parser has to follow the
    declaration); iso-8859-1 falls back to utf-16 when the text has characters outside Latin-1"""
    if encoding != 'utf-8':
        if encoding == 'iso-8859-1':
            try:
                xml_text.encode('iso-8859-1')
            except UnicodeEncodeError:
                encoding = 'utf-16'
        xml_text = xml_text.replace('encoding="utf-8"', 'encoding="%s"' % encoding, 1)
    with zipfile.ZipFile(path, 'w') as z:
        z.writestr('model.eom', xml_text.encode(encoding))
        z.writestr('meta.json', json.dumps({'scadVersion': '1.0.0'}))
    return encoding

"""Bootstrap: run the working tree of the repository, from a private scratch cwd.

* ``MTV_REPO`` (default /repo) is put first on sys.path and the import is
  asserted to come from there, so a check always exercises the current
  working tree (pure Python: rebuild == fresh import in a fresh process).
* ``import maltoolbox`` opens ``tmp/log.txt`` relative to the cwd and
  ``create_attack_graph`` writes ``tmp/*.yml`` there, so every process first
  chdirs into its own scratch directory (outside /repo and /verif).
* ``MAL_TOOLBOX_VERIF=1`` is exported: the guard reserved in MANIFEST.hooks.
"""
from __future__ import annotations

import atexit
import os
import shutil
import sys
import tempfile

VERIF_DIR = os.path.dirname(os.path.dirname(os.path.abspath(__file__)))
REPO = os.path.abspath(os.environ.get('MTV_REPO', '/repo'))
GUARD = 'MAL_TOOLBOX_VERIF'

_scratch = None


def scratch_root() -> str:
    base = os.environ.get('MTV_SCRATCH') or os.environ.get('TMPDIR') or '/var/tmp'
    return base


def enter_scratch() -> str:
    """Create a private scratch dir, chdir into it, remove it at exit."""
    global _scratch
    if _scratch is None:
        os.makedirs(scratch_root(), exist_ok=True)
        _scratch = tempfile.mkdtemp(prefix='mtv-%d-' % os.getpid(), dir=scratch_root())
        atexit.register(shutil.rmtree, _scratch, True)
    os.chdir(_scratch)
    return _scratch


def bootstrap():
    """Import maltoolbox from the working tree; return the package."""
    os.environ[GUARD] = '1'
    enter_scratch()
    if REPO in sys.path:
        sys.path.remove(REPO)
    sys.path.insert(0, REPO)
    import logging
    import maltoolbox  # noqa
    got = os.path.abspath(maltoolbox.__file__)
    if not got.startswith(REPO + os.sep):
        raise RuntimeError('maltoolbox imported from %s, expected under %s' % (got, REPO))
    # keep the file logger quiet and cheap (it is opened in the scratch dir)
    logging.getLogger('maltoolbox').setLevel(logging.CRITICAL)
    logging.getLogger('python_jsonschema_objects').setLevel(logging.CRITICAL)
    return maltoolbox

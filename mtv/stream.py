"""The shared (language, model) case stream: generation + construction of the
real objects from the repository under test."""
from __future__ import annotations

import copy
import io
import json
import os
import zipfile

from .gen_lang import gen_language, Cfg
from .gen_model import gen_amodel, build_real, MCfg
from .ref_sem import Lang, AModel

_corelang = {}


class TooExpensive(BaseException):
    """the CPU budget of one case ran out (BaseException: it must pass through
    `except Exception` in the code under test).  Never a verdict: the case is
    skipped and counted."""


class cpu_budget:
    """context manager: raise TooExpensive after `seconds` of CPU time of this
    process (ITIMER_VIRTUAL, so machine load does not matter)"""

    def __init__(self, seconds):
        self.seconds = seconds

    def _fire(self, signum, frame):
        raise TooExpensive('cpu budget of %ss used up' % self.seconds)

    def __enter__(self):
        import signal
        self.old = signal.signal(signal.SIGVTALRM, self._fire)
        signal.setitimer(signal.ITIMER_VIRTUAL, self.seconds)
        return self

    def __exit__(self, *a):
        import signal
        signal.setitimer(signal.ITIMER_VIRTUAL, 0)
        signal.signal(signal.SIGVTALRM, self.old)
        return False


CASE_CPU_S = 4.0


def corelang_spec(variant='core'):
    if variant not in _corelang:
        from . import env
        fn = {'core': 'org.mal-lang.coreLang-1.0.0.mar',
              'union': 'corelang-union-common-ancestor.mar'}[variant]
        with zipfile.ZipFile(os.path.join(env.REPO, 'tests', 'testdata', fn)) as z:
            _corelang[variant] = json.loads(z.read('langspec.json'))
    return copy.deepcopy(_corelang[variant])


LARGE_SHARE = 0.04


def gen_case(rng, lcfg=None, mcfg=None, corelang_share=0.0):
    """a JSON-serialisable case: spec + abstract model; LARGE_SHARE of the cases come from the large stratum
    (10-16 asset types with an inheritance chain of depth 8, 12-40 assets, fields with up to 12 members, up to 12
    attackers, very long / padded / normalising names, ids around 2**31 and 2**63, defense values next to 0 and 1)"""
    if rng.random() < LARGE_SHARE:
        lcfg = copy.copy(lcfg) if lcfg is not None else Cfg()
        mcfg = copy.copy(mcfg) if mcfg is not None else MCfg()
        lcfg.large = True
        mcfg.large = True
        if rng.random() < 0.5:
            mcfg.explicit_ids = 1.0
    if corelang_share and rng.random() < corelang_share:
        spec = corelang_spec(rng.choice(['core', 'core', 'union']))
        src = 'corelang'
        mcfg = mcfg or MCfg()
    else:
        spec = gen_language(rng, lcfg)
        src = 'generated'
    lang = Lang(spec)
    am = gen_amodel(rng, lang, mcfg)
    return {'source': src, 'spec': spec, 'amodel': am.to_json()}


class Built:
    """real objects for a case, built from the working tree's classes"""

    def __init__(self, case, attackers=True, explicit_ids=None):
        from maltoolbox.language import LanguageGraph, LanguageClassesFactory
        from maltoolbox.model import Model, AttackerAttachment
        self.case = case
        self.lang = Lang(case['spec'])
        self.am = AModel.from_json(case['amodel'])
        # the toolbox gets its own deep copy; self.lang keeps the pristine one
        self.spec_given = copy.deepcopy(case['spec'])
        self.lang_graph = LanguageGraph(self.spec_given)
        self.factory = LanguageClassesFactory(self.lang_graph)
        self.model, self.objs = build_real(
            self.lang, self.am, self.factory, Model,
            AttackerAttachment if attackers else None, explicit_ids=explicit_ids)

    @classmethod
    def from_history(cls, case):
        """real objects for a case whose model is reached through an edit history
        (case['history'], applied in lock step with the shadow model of mtv/shadow.py);
        the abstract model is the shadow's final state"""
        from .shadow import Lockstep
        self = cls.__new__(cls)
        ls = Lockstep(case['spec'])
        ls.check_every_step = False
        mid = case.get('generate_after')
        for i, op in enumerate(case['history']):
            if mid is not None and i == mid:
                # the model already served a generation before the remaining edits
                from maltoolbox.attackgraph import AttackGraph
                try:
                    with cpu_budget(CASE_CPU_S):
                        AttackGraph(ls.lang_graph, ls.model)
                except TooExpensive:
                    pass
            ls.apply(op)
        self.case = case
        self.lang = ls.lang
        self.am = ls.abstract_model()
        self.spec_given = None
        self.lang_graph, self.factory, self.model = ls.lang_graph, ls.factory, ls.model
        self.objs = {a.id: ls.real[a.key] for a in ls.sh.assets}
        self.lockstep = ls
        return self

    def attack_graph(self, cpu_s=CASE_CPU_S):
        """generate the attack graph; the toolbox's evaluator keeps duplicates in
        its lists and re-evaluates a subType operand once per target, so a few
        generated cases are pathologically expensive: TooExpensive -> skip"""
        from maltoolbox.attackgraph import AttackGraph
        if cpu_s is None:
            return AttackGraph(self.lang_graph, self.model)
        with cpu_budget(cpu_s):
            return AttackGraph(self.lang_graph, self.model)


def shrink_case(case, still_fails, max_runs=120):
    """greedy delta debugging on the abstract model and the language:
    drop link instances, assets, attackers, step expressions, steps."""
    runs = [0]

    def ok(c):
        if runs[0] >= max_runs:
            return False
        runs[0] += 1
        try:
            return bool(still_fails(c))
        except Exception:
            return False

    cur = copy.deepcopy(case)
    changed = True
    while changed and runs[0] < max_runs:
        changed = False
        am = cur['amodel']
        for i in range(len(am['links']) - 1, -1, -1):
            c = copy.deepcopy(cur)
            del c['amodel']['links'][i]
            if ok(c):
                cur, changed = c, True
        am = cur['amodel']
        for i in range(len(am['assets']) - 1, -1, -1):
            aid = am['assets'][i]['id']
            if any(aid in l['left'] or aid in l['right'] for l in am['links']):
                continue
            c = copy.deepcopy(cur)
            del c['amodel']['assets'][i]
            c['amodel']['attackers'] = [
                dict(a, entry_points=[e for e in a['entry_points'] if e[0] != aid])
                for a in c['amodel']['attackers']]
            if ok(c):
                cur, changed = c, True
                am = cur['amodel']
        if cur['amodel']['attackers']:
            c = copy.deepcopy(cur)
            c['amodel']['attackers'] = []
            if ok(c):
                cur, changed = c, True
        # language: drop reaches expressions one at a time
        for ai, a in enumerate(cur['spec']['assets']):
            for si, s in enumerate(a['attackSteps']):
                if s['reaches'] and len(s['reaches']['stepExpressions']) > 0:
                    for ei in range(len(s['reaches']['stepExpressions']) - 1, -1, -1):
                        c = copy.deepcopy(cur)
                        r = c['spec']['assets'][ai]['attackSteps'][si]['reaches']
                        del r['stepExpressions'][ei]
                        if not r['stepExpressions']:
                            c['spec']['assets'][ai]['attackSteps'][si]['reaches'] = None
                        if ok(c):
                            cur, changed = c, True
                            s = cur['spec']['assets'][ai]['attackSteps'][si]
                            if not s['reaches']:
                                break
    return cur, runs[0]

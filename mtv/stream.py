"""The shared (language, model) case stream: generation + construction of the
real objects from the repository under test."""
from __future__ import annotations

import copy
import io
import json
import os
import zipfile

from .gen_lang import gen_language, Cfg
from .gen_model import gen_amodel, build_real, MCfg
from .ref_sem import Lang, AModel

_corelang = {}


class TooExpensive(BaseException):
    """the CPU budget of one case ran out (BaseException: it must pass through
    `except Exception` in the code under test).  Never a verdict: the case is
    skipped and counted."""


class cpu_budget:
    """context manager: raise TooExpensive after `seconds` of CPU time of this
    process (ITIMER_VIRTUAL, so machine load does not matter)"""

    def __init__(self, seconds):
        self.seconds = seconds

    def _fire(self, signum, frame):
        raise TooExpensive('cpu budget of %ss used up' % self.seconds)

    def __enter__(self):
        import signal
        self.old = signal.signal(signal.SIGVTALRM, self._fire)
        signal.setitimer(signal.ITIMER_VIRTUAL, self.seconds)
        return self

    def __exit__(self, *a):
        import signal
        signal.setitimer(signal.ITIMER_VIRTUAL, 0)
        signal.signal(signal.SIGVTALRM, self.old)
        return False


CASE_CPU_S = 4.0


def corelang_spec(variant='core'):
    if variant not in _corelang:
        from . import env
        fn = {'core': 'org.mal-lang.coreLang-1.0.0.mar',
              'union': 'corelang-union-common-ancestor.mar'}[variant]
        with zipfile.ZipFile(os.path.join(env.REPO, 'tests', 'testdata', fn)) as z:
            _corelang[variant] = json.loads(z.read('langspec.json'))
    return copy.deepcopy(_corelang[variant])


LARGE_SHARE = 0.04


def gen_case(rng, lcfg=None, mcfg=None, corelang_share=0.0):
    """a JSON-serialisable case: spec + abstract model; LARGE_SHARE of the cases come from the large stratum
    (10-16 asset types with an inheritance chain of depth 8, 12-40 assets, fields with up to 12 members, up to 12
    attackers, very long / padded / normalising names, ids around 2**31 and 2**63, defense values next to 0 and 1)"""
    if rng.random() < LARGE_SHARE:
        lcfg = copy.copy(lcfg) if lcfg is not None else Cfg()
        mcfg = copy.copy(mcfg) if mcfg is not None else MCfg()
        lcfg.large = True
        mcfg.large = True
        if rng.random() < 0.5:
            mcfg.explicit_ids = 1.0
    if corelang_share and rng.random() < corelang_share:
        spec = corelang_spec(rng.choice(['core', 'core', 'union']))
        src = 'corelang'
        mcfg = mcfg or MCfg()
    else:
        spec = gen_language(rng, lcfg)
        src = 'generated'
    lang = Lang(spec)
    am = gen_amodel(rng, lang, mcfg)
    return {'source': src, 'spec': spec, 'amodel': am.to_json(),
            'interference': rng.randrange(1 << 30) if rng.random() < INTERFERENCE_SHARE else None}


# ---- interference: other objects and refused calls around the objects under test ----------------------------
# A share of the cases (case['interference'] = seed) is built in a "busy process": other language graphs for a
# different language with the same asset-type names are created before and after the one under test, constructions
# and generations that correctly fail happen in between, a second model lives on the same class factory, calls on
# the model under test are refused, twin attack graphs are generated from the same model before and after the graph
# under test.  None of this may change what the objects under test answer: every check that uses Built compares
# with the same reference as in a quiet process.
INTERFERENCE_SHARE = 0.3
STATS = {}


def _stat(k, n=1):
    STATS[k] = STATS.get(k, 0) + n


def variant_spec(spec, irng):
    """a different, well-formed language with the same asset-type, step, field and variable names"""
    v = copy.deepcopy(spec)
    v['defines'] = dict(v.get('defines', {}), version='9.9.9')
    for a in v['assets']:
        # what the steps of an asset lead to is rotated among them (same context type: still well-formed)
        own = [st for st in a['attackSteps'] if st['type'] in ('or', 'and', 'defense')]
        if len(own) >= 2:
            rs = [st['reaches'] for st in own]
            rs = rs[1:] + rs[:1]
            for st, r in zip(own, rs):
                st['reaches'] = r
        for st in a['attackSteps']:
            if st['type'] in ('or', 'and'):
                st['type'] = 'and' if st['type'] == 'or' else 'or'
                st['tags'] = ['noise']
                st['ttc'] = None
                if st['reaches'] and irng.random() < 0.5:
                    st['reaches'] = {'overrides': st['reaches']['overrides'], 'stepExpressions': st['reaches']['stepExpressions'][:1]}
            elif st['type'] == 'defense':
                enabled = bool(st['ttc']) and st['ttc'].get('name') == 'Enabled'
                st['ttc'] = {'type': 'function', 'name': 'Disabled' if enabled else 'Enabled', 'arguments': []}
    return v


def illformed_variant(spec):
    v = copy.deepcopy(spec)
    if v['assets']:
        v['assets'][-1]['superAsset'] = 'NoSuchAssetType'
    return v


def older_version_spec(spec):
    """the language without one leaf sub-type that nothing else mentions (an "older version"), or None"""
    text = json.dumps(spec)
    names = [a['name'] for a in spec['assets']]
    parents = {a['name']: a['superAsset'] for a in spec['assets']}
    for t in reversed(names):
        if not parents[t] or t in parents.values():
            continue
        if any(t in (x['leftAsset'], x['rightAsset']) for x in spec['associations']):
            continue
        if '"subType": "%s"' % t in text:
            continue
        v = copy.deepcopy(spec)
        v['assets'] = [a for a in v['assets'] if a['name'] != t]
        return v
    return None


def language_graph_by_route(case, spec_given):
    """-> (language graph, the specification dict it was given).  The language graph under test is built through one of the routes that have to be equivalent: the constructor
    on the specification dict (60 %), MAL source through the compiler (10 %, generated languages), a .mar archive through from_mar_archive / load_from_file, or the
    specification written by save_language_specification_to_json of an earlier graph and read back.  The route
    is a function of the case (case['lang_route'], kept in the replay file)."""
    import zlib, zipfile
    from maltoolbox.language import LanguageGraph
    route = case.get('lang_route')
    if route is None:
        route = zlib.crc32(('route' + json.dumps(case.get('amodel', case['spec']), sort_keys=True)).encode()) % 10
        case['lang_route'] = route
    route_key = zlib.crc32(json.dumps(case['spec'], sort_keys=True).encode())
    if route == 3 and case.get('source') != 'corelang':
        # MAL source: the specification is printed and goes through the compiler (C04 decides that the compiler
        # returns the language the text denotes; here the graph built from its output is judged like any other)
        import random, shutil, tempfile
        from .malprint import print_spec, canonical_order_ok
        d = None
        try:
            if not canonical_order_ok(spec_given):
                raise ValueError('order')
            text = print_spec(spec_given, random.Random(route_key))
            d = tempfile.mkdtemp(prefix='lang-src-', dir=os.getcwd())
            with open(os.path.join(d, 'main.mal'), 'w', encoding='utf-8', newline='') as f:
                f.write(text)
        except ValueError:
            if d:
                shutil.rmtree(d, ignore_errors=True)
            return LanguageGraph(spec_given), spec_given
        try:
            _stat('language-graph-built-from-mal-source')
            lg = LanguageGraph.from_mal_spec(os.path.join(d, 'main.mal')) if route_key % 2 else \
                LanguageGraph.load_from_file(os.path.join(d, 'main.mal'))
            return lg, lg._lang_spec
        finally:
            shutil.rmtree(d, ignore_errors=True)
    if route >= 3:
        return LanguageGraph(spec_given), spec_given
    # one fixed path per process: every archive overwrites the previous one, as a rebuilt language does
    base = os.path.join(os.getcwd(), 'lang')
    try:
        if route in (0, 1):
            with zipfile.ZipFile(base + '.mar', 'w') as z:
                z.writestr('langspec.json', json.dumps(spec_given))
            _stat('language-graph-built-from-mar-archive')
            if route == 0:
                return LanguageGraph.from_mar_archive(base + '.mar'), spec_given
            return LanguageGraph.load_from_file(base + '.mar'), spec_given
        first = LanguageGraph(copy.deepcopy(spec_given))
        first.save_language_specification_to_json(base + '.json')
        with open(base + '.json', encoding='utf-8') as f:
            spec_given = json.load(f)
        _stat('language-graph-built-from-saved-specification')
        return LanguageGraph(spec_given), spec_given
    finally:
        pass


class Built:
    """real objects for a case, built from the working tree's classes"""

    def __init__(self, case, attackers=True, explicit_ids=None):
        import random
        from maltoolbox.language import LanguageGraph, LanguageClassesFactory
        from maltoolbox.model import Model, AttackerAttachment
        self.case = case
        self.lang = Lang(case['spec'])
        self.am = AModel.from_json(case['amodel'])
        # the toolbox gets its own deep copy; self.lang keeps the pristine one
        self.spec_given = copy.deepcopy(case['spec'])
        seed = case.get('interference')
        self.irng = irng = random.Random(seed) if seed is not None else None
        self.noise = []
        if irng:
            self._other_language_graphs(irng)
        self.lang_graph = self._language_graph(case)
        if irng:
            self._other_language_graphs(irng)
        self.factory = LanguageClassesFactory(self.lang_graph)
        self.model, self.objs = build_real(
            self.lang, self.am, self.factory, Model,
            AttackerAttachment if attackers else None, explicit_ids=explicit_ids)
        if irng:
            _stat('cases-built-with-interference')
            self._refused_calls(irng)

    def _language_graph(self, case):
        lg, self.spec_given = language_graph_by_route(case, self.spec_given)
        return lg

    def _other_language_graphs(self, irng):
        from maltoolbox.language import LanguageGraph
        try:
            LanguageGraph(illformed_variant(self.case['spec']))       # correctly refused
        except Exception:
            pass
        try:
            other = LanguageGraph(variant_spec(self.case['spec'], irng))
            self.noise.append(other)
            if irng.random() < 0.5:
                other.regenerate_graph()
            for a in list(other.assets)[:3]:
                other._get_attacks_for_asset_type(a.name)
        except Exception:
            pass

    def _refused_calls(self, irng):
        """calls that are correctly refused, and a second model on the same class factory"""
        from maltoolbox.model import Model
        from maltoolbox.attackgraph import AttackGraph
        m = self.model
        # a second model on the same classes, same ids and names
        try:
            other = Model('other', self.factory)
            for a in self.am.assets[:3]:
                other.add_asset(getattr(self.factory.ns, a['type'])(name=a['name']), asset_id=a['id'])
            self.noise.append(other)
            if m.associations:
                try:
                    other.remove_association(m.associations[irng.randrange(len(m.associations))])   # not in that model
                except Exception:
                    _stat('refused:remove_association-of-another-model')
            if m.assets:
                try:
                    other.remove_asset(m.assets[irng.randrange(len(m.assets))])                     # not in that model
                except Exception:
                    pass
        except Exception:
            pass
        # an asset of the model added again under its own id: the id is in use
        for _ in range(2):
            if m.assets:
                a = m.assets[irng.randrange(len(m.assets))]
                try:
                    m.add_asset(a, asset_id=int(a.id))
                except Exception:
                    _stat('refused:add_asset-already-in-model')
        # a generation that fails: the model does not fit the (older version of the) language
        old = older_version_spec(self.case['spec'])
        if old is not None:
            try:
                lg_old = LanguageGraph(old)
                self.noise.append(lg_old)
                with cpu_budget(CASE_CPU_S):
                    self.noise.append(AttackGraph(lg_old, m))
            except TooExpensive:
                pass
            except Exception:
                _stat('refused:generation-with-an-older-language-version')
        # generations from the model under test that are interrupted part-way (a timeout: TooExpensive is raised
        # from a timer signal at whatever point the generation has reached)
        for delay in (irng.choice([0.0002, 0.0005, 0.001]), irng.choice([0.001, 0.002, 0.004])):
            try:
                with cpu_budget(delay):
                    AttackGraph(self.lang_graph, m)
            except TooExpensive:
                _stat('refused:generation-interrupted-part-way')
            except Exception:
                pass
        if irng.random() < 0.6:
            self._other_language_graphs(irng)       # the other language is loaded once more

    @classmethod
    def from_history(cls, case):
        """real objects for a case whose model is reached through an edit history
        (case['history'], applied in lock step with the shadow model of mtv/shadow.py);
        the abstract model is the shadow's final state"""
        from .shadow import Lockstep
        self = cls.__new__(cls)
        ls = Lockstep(case['spec'])
        ls.check_every_step = False
        ls.strict_raise = False      # what a refused operation leaves behind is judged by what is generated from the model
        mid = case.get('generate_after')
        for i, op in enumerate(case['history']):
            if mid is not None and i == mid:
                # the model already served a generation before the remaining edits
                from maltoolbox.attackgraph import AttackGraph
                try:
                    with cpu_budget(CASE_CPU_S):
                        AttackGraph(ls.lang_graph, ls.model)
                except TooExpensive:
                    pass
            ls.apply(op)
        self.case = case
        self.lang = ls.lang
        self.am = ls.abstract_model()
        self.spec_given = None
        self.lang_graph, self.factory, self.model = ls.lang_graph, ls.factory, ls.model
        self.objs = {a.id: ls.real[a.key] for a in ls.sh.assets}
        self.lockstep = ls
        return self

    def attack_graph(self, cpu_s=CASE_CPU_S):
        """generate the attack graph; the toolbox's evaluator keeps duplicates in
        its lists and re-evaluates a subType operand once per target, so a few
        generated cases are pathologically expensive: TooExpensive -> skip"""
        from maltoolbox.attackgraph import AttackGraph
        irng = getattr(self, 'irng', None)
        if irng is None:
            if cpu_s is None:
                return AttackGraph(self.lang_graph, self.model)
            with cpu_budget(cpu_s):
                return AttackGraph(self.lang_graph, self.model)
        # twin graphs generated from the same model before and after the graph under test
        with cpu_budget(3 * (cpu_s or CASE_CPU_S)):
            if irng.random() < 0.5:
                self.noise.append(AttackGraph(self.lang_graph, self.model))
            g = AttackGraph(self.lang_graph, self.model)
            if irng.random() < 0.7:
                self.noise.append(AttackGraph(self.lang_graph, self.model))
                _stat('twin-graph-generated-after-the-graph-under-test')
        return g


def shrink_case(case, still_fails, max_runs=120):
    """greedy delta debugging on the abstract model and the language:
    drop link instances, assets, attackers, step expressions, steps."""
    runs = [0]

    def ok(c):
        if runs[0] >= max_runs:
            return False
        runs[0] += 1
        try:
            return bool(still_fails(c))
        except Exception:
            return False

    cur = copy.deepcopy(case)
    changed = cur.get('amodel') is not None
    while changed and runs[0] < max_runs:
        changed = False
        am = cur['amodel']
        for i in range(len(am['links']) - 1, -1, -1):
            c = copy.deepcopy(cur)
            del c['amodel']['links'][i]
            if ok(c):
                cur, changed = c, True
        am = cur['amodel']
        for i in range(len(am['assets']) - 1, -1, -1):
            aid = am['assets'][i]['id']
            if any(aid in l['left'] or aid in l['right'] for l in am['links']):
                continue
            c = copy.deepcopy(cur)
            del c['amodel']['assets'][i]
            c['amodel']['attackers'] = [
                dict(a, entry_points=[e for e in a['entry_points'] if e[0] != aid])
                for a in c['amodel']['attackers']]
            if ok(c):
                cur, changed = c, True
                am = cur['amodel']
        if cur['amodel']['attackers']:
            c = copy.deepcopy(cur)
            c['amodel']['attackers'] = []
            if ok(c):
                cur, changed = c, True
        # language: drop reaches expressions one at a time
        for ai, a in enumerate(cur['spec']['assets']):
            for si, s in enumerate(a['attackSteps']):
                if s['reaches'] and len(s['reaches']['stepExpressions']) > 0:
                    for ei in range(len(s['reaches']['stepExpressions']) - 1, -1, -1):
                        c = copy.deepcopy(cur)
                        r = c['spec']['assets'][ai]['attackSteps'][si]['reaches']
                        del r['stepExpressions'][ei]
                        if not r['stepExpressions']:
                            c['spec']['assets'][ai]['attackSteps'][si]['reaches'] = None
                        if ok(c):
                            cur, changed = c, True
                            s = cur['spec']['assets'][ai]['attackSteps'][si]
                            if not s['reaches']:
                                break
    return cur, runs[0]


PATH_SHAPES = ['abs', 'abs', 'rel-dir', 'dot', 'bare', 'dots-and-spaces']


class shaped_path:
    """context manager giving the path of file `name` inside directory `d` in one of the shapes a caller may use:
    absolute, relative with a directory part, './x', a bare file name (the working directory is then `d`),
    a directory and file name with dots and blanks"""

    def __init__(self, d, name, shape):
        self.d, self.name, self.shape = d, name, shape
        self.cwd = None

    def __enter__(self):
        d, name, shape = self.d, self.name, self.shape
        if shape == 'abs':
            return os.path.join(d, name)
        if shape == 'rel-dir':
            return os.path.relpath(os.path.join(d, name))
        if shape == 'dot':
            return './' + os.path.relpath(os.path.join(d, name))
        if shape == 'bare':
            self.cwd = os.getcwd()
            os.chdir(d)
            return name
        sub = os.path.join(d, 'my dir.v1')
        os.makedirs(sub, exist_ok=True)
        return os.path.join(sub, 'file 1.v2.' + name)

    def __exit__(self, *a):
        if self.cwd is not None:
            os.chdir(self.cwd)
        return False

"""One shard of one property (a fresh process): bootstrap, run, dump JSON."""
from __future__ import annotations

import argparse
import faulthandler
import importlib
import json
import random
import sys


def main(argv=None):
    ap = argparse.ArgumentParser()
    ap.add_argument('prop')
    ap.add_argument('--tier', default='quick')
    ap.add_argument('--seed', type=int, default=0)
    ap.add_argument('--shard', type=int, default=0)
    ap.add_argument('--of', type=int, default=1)
    ap.add_argument('--out')
    ap.add_argument('--replay')
    args = ap.parse_args(argv)

    from mtv import env
    env.bootstrap()
    faulthandler.enable()
    sys.setrecursionlimit(3000)
    from mtv.result import Result
    mod = importlib.import_module('mtv.props.' + args.prop)

    if args.replay:
        with open(args.replay) as f:
            rp = json.load(f)
        res = Result(args.prop, 'replay', 0, 0)
        if isinstance(rp['case'], dict) and rp['case'].get('_debug_logging'):
            from mtv.result import set_debug_logging
            set_debug_logging(True)
        mod.replay(rp['case'], res)
        if res.violations:
            for v in res.violations:
                print('VIOLATION property=%s replay=%s' % (args.prop, args.replay))
                print('  key=%s' % v['key'])
                print('  what=%s' % str(v['what'])[:2000])
            return 1
        print('replay: no violation (%d evaluations)' % res.evaluations)
        return 0

    res = Result(args.prop, args.tier, args.seed, args.shard)
    rng = random.Random(args.seed * 1000 + args.shard)
    import os
    cov_dir = os.environ.get('MTV_FUNCCOV')
    entered = set()
    if cov_dir:
        # development aid (tools/funccov.sh): which functions of the repository does this workload enter at all
        mon = sys.monitoring
        mon.use_tool_id(4, 'mtv-funccov')

        def on_start(code, offset):
            if '/maltoolbox/' in code.co_filename:
                entered.add('%s:%s' % (code.co_filename.split('/maltoolbox/', 1)[1], code.co_qualname))
            return mon.DISABLE
        mon.register_callback(4, mon.events.PY_START, on_start)
        mon.set_events(4, mon.events.PY_START)
    mod.run(rng, res, args.tier, args.shard, args.of)
    from mtv import stream
    for k, v in stream.STATS.items():
        res.counters['env:' + k] = res.counters.get('env:' + k, 0) + v
    if cov_dir:
        os.makedirs(cov_dir, exist_ok=True)
        with open(os.path.join(cov_dir, '%s-%d.txt' % (args.prop, args.shard)), 'w') as f:
            f.write('\n'.join(sorted(entered)))
    with open(args.out, 'w') as f:
        json.dump(res.to_json(), f, default=repr)
    return 0


if __name__ == '__main__':
    sys.exit(main())

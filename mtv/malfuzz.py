"""Token-level mutations of MAL programs and the grammar's own verdict (S10)."""
from __future__ import annotations

import os


def _classes():
    from maltoolbox.language.compiler.mal_lexer import malLexer
    from maltoolbox.language.compiler.mal_parser import malParser
    return malLexer, malParser


class Counting:
    def __init__(self):
        self.lexer = 0
        self.parser = 0

    def listener(self, which):
        from antlr4.error.ErrorListener import ErrorListener
        outer = self

        class L(ErrorListener):
            def syntaxError(self, recognizer, offendingSymbol, line, column, msg, e):
                if which == 'lexer':
                    outer.lexer += 1
                else:
                    outer.parser += 1
        return L()


def tokenize(text):
    """[(type, start, stop, text)] of the default-channel tokens (no EOF)"""
    from antlr4 import InputStream
    malLexer, _ = _classes()
    lx = malLexer(InputStream(text))
    lx.removeErrorListeners()
    out = []
    while True:
        t = lx.nextToken()
        if t.type == -1:
            break
        out.append((t.type, t.start, t.stop, t.text))
    return out


def grammar_verdict(text):
    """(lexer errors, parser errors, includes found, consumed_all) from the
    generated lexer/parser with counting listeners"""
    from antlr4 import InputStream, CommonTokenStream, Token
    malLexer, malParser = _classes()
    c = Counting()
    lx = malLexer(InputStream(text))
    lx.removeErrorListeners()
    lx.addErrorListener(c.listener('lexer'))
    ts = CommonTokenStream(lx)
    ps = malParser(ts)
    ps.removeErrorListeners()
    ps.addErrorListener(c.listener('parser'))
    tree = ps.mal()
    includes = []
    try:
        for d in tree.declaration():
            inc = d.include()
            if inc is not None and inc.STRING() is not None:
                includes.append(inc.STRING().getText().strip('"'))
    except Exception:
        pass
    consumed_all = ts.LA(1) == Token.EOF
    return c.lexer, c.parser, includes, consumed_all


def label_program(files, root):
    """grammar's verdict over the root and every file it includes
    -> ('erroneous'|'valid'|'unreadable', detail)"""
    seen = set()
    stack = [root]
    lex = par = 0
    ignored_tail = False
    while stack:
        name = os.path.basename(stack.pop())
        if name in seen:
            continue
        seen.add(name)
        if name not in files:
            return 'unreadable', {'missing': name}
        l, p, incs, allc = grammar_verdict(files[name])
        lex += l
        par += p
        if not allc:
            ignored_tail = True
        if l or p:
            # the include list of an erroneous file is not reliable; the
            # program is erroneous anyway
            continue
        stack.extend(incs)
    if lex or par:
        return 'erroneous', {'lexer': lex, 'parser': par, 'ignored_tail': ignored_tail}
    return 'valid', {'ignored_tail': ignored_tail}


KEYWORDS = ['A', 'E', 'C', 'I', 'asset', 'info', 'let', 'extends', 'abstract', 'category', 'include', 'associations']
PUNCT = ['{', '}', '(', ')', '[', ']', ',', '.', '->', '+>', '<-', '|', '&', '#', '*', '\\/', '/\\', '-', '<--', '-->',
         '..', ':', '=', '@', '!E', '+', '/', '^']
ILLEGAL = ['$', '?', '%', '`', '~', ';', '\\', '!', '<', "'"]
# characters no token and no white-space rule of mal.g4 matches, but which str.splitlines / str.strip / str.isspace /
# universal newlines / Unicode normalisation treat as breaks or blanks
EXOTIC_ILLEGAL = ['\x0c', '\x0b', '\x1c', '\x1d', '\x1e', '\x85', '\u2028', '\u2029', '\xa0', '\ufeff', '\u200b', '\x00', '\u3000', '\xe9']
OPEN = {'{': '}', '(': ')', '[': ']'}


def mutate(rng, text, toks=None):
    """one random token-level mutation -> (mutation class, new text)"""
    toks = toks if toks is not None else tokenize(text)
    if not toks:
        return 'empty', text
    kinds = ['delete', 'delete', 'duplicate', 'swap', 'insert-punct', 'insert-id', 'truncate', 'unbalance',
             'keyword-as-id', 'illegal-char', 'delete-range', 'replace-punct', 'exotic-char']
    k = rng.choice(kinds)
    i = rng.randrange(len(toks))
    ty, a, b, tx = toks[i]
    if k == 'delete':
        return k, text[:a] + text[b + 1:]
    if k == 'delete-range':
        j = min(len(toks) - 1, i + rng.randint(1, 4))
        return k, text[:a] + text[toks[j][2] + 1:]
    if k == 'duplicate':
        return k, text[:b + 1] + ' ' + tx + text[b + 1:]
    if k == 'swap':
        if i + 1 >= len(toks):
            return 'delete', text[:a] + text[b + 1:]
        _t2, a2, b2, tx2 = toks[i + 1]
        return k, text[:a] + tx2 + text[b + 1:a2] + tx + text[b2 + 1:]
    if k == 'insert-punct':
        return k, text[:a] + rng.choice(PUNCT) + ' ' + text[a:]
    if k == 'replace-punct':
        return k, text[:a] + rng.choice(PUNCT) + text[b + 1:]
    if k == 'insert-id':
        return k, text[:a] + rng.choice(['foo', 'x1', '42', '0.5', '"str"']) + ' ' + text[a:]
    if k == 'truncate':
        return k, text[:a]
    if k == 'unbalance':
        idx = [n for n, t in enumerate(toks) if t[3] in '{}()[]' and len(t[3]) == 1]
        if not idx:
            return 'delete', text[:a] + text[b + 1:]
        n = rng.choice(idx)
        _t, a3, b3, _x = toks[n]
        return k, text[:a3] + text[b3 + 1:]
    if k == 'keyword-as-id':
        from maltoolbox.language.compiler.mal_parser import malParser
        idx = [n for n, t in enumerate(toks) if t[0] == malParser.ID]
        if not idx:
            return 'delete', text[:a] + text[b + 1:]
        n = rng.choice(idx)
        _t, a3, b3, _x = toks[n]
        return k, text[:a3] + rng.choice(KEYWORDS) + text[b3 + 1:]
    if k == 'illegal-char':
        pos = rng.choice([a, b + 1])
        return k, text[:pos] + rng.choice(ILLEGAL) + text[pos:]
    if k == 'exotic-char':
        # between two tokens, on a line of its own or replacing the blank after the token (a "page break")
        c = rng.choice(EXOTIC_ILLEGAL)
        pos = b + 1
        form = rng.randrange(3)
        if form == 0:
            return k, text[:pos] + c + text[pos:]
        if form == 1:
            return k, text[:pos] + '\n' + c + '\n' + text[pos:]
        if pos < len(text) and text[pos] in ' \n':
            return k, text[:pos] + c + text[pos + 1:]
        return k, text[:pos] + c + text[pos:]
    return 'delete', text[:a] + text[b + 1:]


def exhaustive_single(text):
    """all single-token deletions and all truncations at token boundaries"""
    toks = tokenize(text)
    for (ty, a, b, tx) in toks:
        yield 'x-delete', text[:a] + text[b + 1:]
    for (ty, a, b, tx) in toks[1:]:
        yield 'x-truncate', text[:a]

"""Recording stand-in for py2neo.Graph (the real Node / Relationship / Subgraph
classes stay).  It implements what maltoolbox.ingestors.neo4j uses: begin /
create / commit / delete_all and the two fixed Cypher queries of get_model,
with Neo4j's per-pattern relationship uniqueness."""
from __future__ import annotations


class Store:
    def __init__(self):
        self.nodes = []
        self.rels = []
        self.creates = 0
        self.commits = 0
        self.deletes = 0
        self.queries = []


class _Tx:
    def __init__(self, store):
        self.store = store
        self.pending = []

    def create(self, subgraph):
        self.store.creates += 1
        self.pending.append(subgraph)


class _Cursor:
    def __init__(self, rows):
        self.rows = rows

    def data(self):
        return self.rows


def make_graph_class(store):
    class FakeGraph:
        def __init__(self, *args, **kwargs):
            self.store = store
            self.kwargs = kwargs

        def delete_all(self):
            store.deletes += 1
            store.nodes.clear()
            store.rels.clear()

        def begin(self):
            return _Tx(store)

        def commit(self, tx):
            store.commits += 1
            for sg in tx.pending:
                for n in sg.nodes:
                    if not any(n is x for x in store.nodes):
                        store.nodes.append(n)
                for r in sg.relationships:
                    if not any(r is x for x in store.rels):
                        store.rels.append(r)
            tx.pending = []

        def run(self, query, *a, **k):
            store.queries.append(query)
            q = ' '.join(query.split())
            if q == 'MATCH (a) WHERE a.type IS NOT NULL RETURN DISTINCT a':
                return _Cursor([{'a': n} for n in store.nodes if n.get('type') is not None])
            if q == 'MATCH (a)-[r1]->(b),(a)<-[r2]-(b) WHERE a.type IS NOT NULL RETURN DISTINCT a, r1, r2, b':
                rows = []
                for r1 in store.rels:
                    a, b = r1.start_node, r1.end_node
                    if a.get('type') is None:
                        continue
                    for r2 in store.rels:
                        if r2 is r1:
                            continue        # a relationship is matched once per pattern
                        if r2.start_node is b and r2.end_node is a:
                            rows.append({'a': a, 'r1': r1, 'r2': r2, 'b': b})
                return _Cursor(rows)
            raise NotImplementedError('query not emulated: %s' % q)
    return FakeGraph

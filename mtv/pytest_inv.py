"""pytest plugin: run the repository's own test-suite with the C09 invariants
(I1-I3) and the C11 compromise symmetry installed on the public AttackGraph /
Attacker / analyzer operations.  Invariants are evaluated at quiescent points
(exit of the outermost watched call).  Results go to $MTV_INV_OUT as JSON.

usage (from a scratch cwd):  PYTHONPATH=/verif:<repo> python -m pytest <repo>/tests -p mtv.pytest_inv -q -p no:cacheprovider
"""
from __future__ import annotations

import json
import os

_state = {'calls': 0, 'checked': 0, 'violations': [], 'by_test': {}, 'current': None, 'watches': []}


def _check(graph, label):
    from mtv import agraph
    _state['checked'] += 1
    f = agraph.check_invariants(graph) or agraph.check_compromise_symmetry(graph)
    if f:
        _state['violations'].append({'test': _state['current'], 'after': label, 'key': f[0], 'what': f[1][:400]})


def pytest_configure(config):
    from mtv.mon import Watch
    import maltoolbox.attackgraph.attackgraph as agmod
    import maltoolbox.attackgraph.analyzers.apriori as ap
    AG = agmod.AttackGraph

    def after_self(label):
        def after(token, args, kwargs, result):
            _state['calls'] += 1
            if args and isinstance(args[0], AG):
                _check(args[0], label)
        return after

    for name in ('add_node', 'remove_node', 'add_attacker', 'remove_attacker', 'attach_attackers', 'regenerate_graph'):
        _state['watches'].append(Watch(AG, name, after=after_self('AttackGraph.' + name), outermost=True, group='inv'))

    def after_result(label):
        def after(token, args, kwargs, result):
            _state['calls'] += 1
            if isinstance(result, AG):
                _check(result, label)
        return after
    _state['watches'].append(Watch(AG, '__deepcopy__', after=after_result('deepcopy'), outermost=True, group='inv'))
    _state['watches'].append(Watch(AG, '_from_dict', after=after_result('AttackGraph._from_dict'), outermost=True, group='inv'))

    def after_graph_arg(label):
        def after(token, args, kwargs, result):
            _state['calls'] += 1
            g = args[0] if args else kwargs.get('graph')
            if isinstance(g, AG):
                _check(g, label)
        return after
    for name in ('calculate_viability_and_necessity', 'prune_unviable_and_unnecessary_nodes'):
        _state['watches'].append(Watch(ap, name, after=after_graph_arg('apriori.' + name), outermost=True, group='inv'))


def pytest_runtest_setup(item):
    _state['current'] = item.nodeid


def pytest_sessionfinish(session, exitstatus):
    out = os.environ.get('MTV_INV_OUT')
    data = {'calls': _state['calls'], 'checked': _state['checked'], 'violations': _state['violations'],
            'monitor_errors': [e for w in _state['watches'] for e in w.errors], 'exitstatus': int(exitstatus)}
    if out:
        with open(out, 'w') as f:
            json.dump(data, f)

"""Attack graphs built directly from descriptions, structural invariants (C09
I1-I3), deep structural snapshots, and the reference analysis (C08)."""
from __future__ import annotations

import copy
import itertools
import json

DIST = {'type': 'function', 'name': 'Exponential', 'arguments': [0.1]}
BERN = {'type': 'function', 'name': 'Bernoulli', 'arguments': [0.5]}
ENABLED = {'type': 'function', 'name': 'Enabled', 'arguments': []}
DISABLED = {'type': 'function', 'name': 'Disabled', 'arguments': []}
COMPOSITE = {'type': 'addition', 'lhs': {'type': 'function', 'name': 'Exponential', 'arguments': [0.1]},
             'rhs': {'type': 'number', 'value': 1.0}}
TTC_KINDS = {'none': None, 'dist': DIST, 'bern': BERN, 'enabled': ENABLED, 'disabled': DISABLED, 'composite': COMPOSITE}

# node kinds: (type, status, ttc kind)
FULL_KINDS = ([(t, None, k) for t in ('or', 'and') for k in ('none', 'dist', 'composite', 'enabled')] +
              [('defense', s, k) for s in (0.0, 0.5, 1.0) for k in ('none', 'disabled', 'dist')] +
              [('exist', True, 'none'), ('exist', False, 'none'), ('notExist', True, 'none'), ('notExist', False, 'none')])
REDUCED_KINDS = [('or', None, 'none'), ('and', None, 'none'), ('or', None, 'dist'), ('and', None, 'dist'),
                 ('defense', 0.0, 'none'), ('defense', 1.0, 'none'), ('defense', 0.0, 'dist'), ('exist', True, 'none'),
                 ('notExist', True, 'none')]


def desc_from_kinds(kinds, edges):
    nodes = []
    for i, (t, st, k) in enumerate(kinds):
        n = {'type': t, 'name': 'n%d' % i, 'ttc': copy.deepcopy(TTC_KINDS[k]), 'defense_status': None,
             'existence_status': None, 'tags': [], 'extras': {}}
        if t == 'defense':
            n['defense_status'] = st
        elif t in ('exist', 'notExist'):
            n['existence_status'] = st
        nodes.append(n)
    return {'nodes': nodes, 'edges': [list(e) for e in edges]}


def gen_desc(rng, n, p_edge=None, kinds=None, cycles=True):
    kinds = kinds or FULL_KINDS
    ks = []
    for i in range(n):
        r = rng.random()
        if r < 0.6:
            ks.append(rng.choice([k for k in kinds if k[0] in ('or', 'and')]))
        else:
            ks.append(rng.choice(kinds))
    p = p_edge if p_edge is not None else min(0.5, 2.5 / max(n, 1))
    edges = []
    for i in range(n):
        for j in range(n):
            if i == j and rng.random() > 0.03:
                continue
            if not cycles and j <= i:
                continue
            if rng.random() < p:
                edges.append([i, j])
    d = desc_from_kinds(ks, edges)
    for nd in d['nodes']:
        if rng.random() < 0.15:
            nd['tags'] = rng.sample(['hidden', 'suppress', 'trace', 't1'], rng.randint(1, 2))
        if rng.random() < 0.08:
            nd['extras'] = rng.choice([{'x': 1}, {'pos': {'x': 1, 'y': 2}}, {'note': 'n'}])
    return d


def build(desc, order=None, child_orders=None, add_via='add_node', ids=None):
    """real AttackGraph from a description.  `order`: permutation of node
    indices giving the order of graph.nodes; child/parent list orders follow
    the (possibly permuted) edge list.  Returns (graph, [node objects by index])."""
    from maltoolbox.attackgraph import AttackGraph, AttackGraphNode
    g = AttackGraph()
    n = len(desc['nodes'])
    order = list(order) if order is not None else list(range(n))
    objs = [None] * n
    for i in order:
        nd = desc['nodes'][i]
        node = AttackGraphNode(type=nd['type'], name=nd['name'], ttc=copy.deepcopy(nd['ttc']))
        node.defense_status = nd['defense_status']
        node.existence_status = nd['existence_status']
        node.tags = list(nd.get('tags', []))
        node.extras = copy.deepcopy(nd.get('extras', {}))
        if 'is_viable' in nd:
            node.is_viable = nd['is_viable']
        if 'is_necessary' in nd:
            node.is_necessary = nd['is_necessary']
        if ids is not None:
            g.add_node(node, node_id=ids[i])      # explicit ids: graph.nodes need not be ordered by id
        else:
            g.add_node(node)
        objs[i] = node
    edges = desc['edges'] if child_orders is None else child_orders
    for i, j in edges:
        objs[i].children.append(objs[j])
    # parents in the order induced by iterating sources in node order (as generation does)
    for i in order:
        for (a, b) in edges:
            if a == i:
                objs[b].parents.append(objs[a])
    return g, objs


# ---- reference analysis (greatest fixed point) ----------------------------------------------
def gated_kind(ttc):
    """'yes' | 'no' | 'ambiguous' : does this TTC count as a probability distribution"""
    if not ttc:
        return 'no'
    if ttc.get('type') == 'function' or 'name' in ttc:
        return 'no' if ttc.get('name') in ('Enabled', 'Disabled') else 'yes'
    if ttc.get('type') == 'number':
        return 'no'
    return 'ambiguous'


def reference_labels(nodes, parents, composite_gated):
    """nodes: list of dict(type, defense_status, existence_status, ttc);
    parents: list of lists of parent indices.  Returns (viable[], necessary[])."""
    n = len(nodes)
    own = {}
    for i, nd in enumerate(nodes):
        t = nd['type']
        if t == 'exist':
            own[i] = (bool(nd['existence_status']), not nd['existence_status'])
        elif t == 'notExist':
            own[i] = (not nd['existence_status'], bool(nd['existence_status']))
        elif t == 'defense':
            own[i] = (nd['defense_status'] != 1.0, nd['defense_status'] != 0.0)
    gate = []
    for nd in nodes:
        k = gated_kind(nd['ttc'])
        gate.append(k == 'yes' or (k == 'ambiguous' and composite_gated))
    via = [True] * n
    nec = [True] * n
    for i, (v, c) in own.items():
        via[i], nec[i] = v, c
    changed = True
    while changed:
        changed = False
        for i, nd in enumerate(nodes):
            if i in own or not parents[i]:
                continue
            ps = parents[i]
            if nd['type'] == 'or':
                v = any(via[p] for p in ps)
                c = all(nec[p] or gate[p] for p in ps)
            elif nd['type'] == 'and':
                v = all(via[p] for p in ps)
                c = any(nec[p] or gate[p] for p in ps)
            else:
                continue
            # downward iteration from all-true: values only ever go True -> False
            v = v and via[i]
            c = c and nec[i]
            if v != via[i] or c != nec[i]:
                via[i], nec[i] = v, c
                changed = True
    return via, nec


def satisfies_equations(nodes, parents, via, nec, composite_gated):
    """is (via, nec) a solution of the equations of C08"""
    gate = []
    for nd in nodes:
        k = gated_kind(nd['ttc'])
        gate.append(k == 'yes' or (k == 'ambiguous' and composite_gated))
    for i, nd in enumerate(nodes):
        t = nd['type']
        if t == 'exist':
            want = (bool(nd['existence_status']), not nd['existence_status'])
        elif t == 'notExist':
            want = (not nd['existence_status'], bool(nd['existence_status']))
        elif t == 'defense':
            want = (nd['defense_status'] != 1.0, nd['defense_status'] != 0.0)
        elif not parents[i]:
            want = (True, True)
        elif t == 'or':
            want = (any(via[p] for p in parents[i]), all(nec[p] or gate[p] for p in parents[i]))
        else:
            want = (all(via[p] for p in parents[i]), any(nec[p] or gate[p] for p in parents[i]))
        if (via[i], nec[i]) != want:
            return False
    return True


# ---- structural invariants I1-I3 (identity based) ------------------------------------------------
def check_invariants(graph, ever_nodes=(), ever_attackers=(), ever_names=()):
    """returns (key, what) or None.
    I1 edges closed and mirrored; I2 lookups exact, ids unique;
    I3 attacker <-> node references inside the graph, get_attacker_by_id exact."""
    nodes = list(graph.nodes)
    present = {id(n) for n in nodes}
    if len(present) != len(nodes):
        return ('attackgraph.nodes:node-listed-twice', 'graph.nodes contains the same node object twice')
    ids = {}
    for n in nodes:
        if n.id in ids:
            return ('attackgraph.nodes:duplicate-id', 'id %r is given to two nodes (%s, %s)' % (n.id, ids[n.id].full_name, n.full_name))
        ids[n.id] = n
    for n in nodes:
        for c in n.children:
            if id(c) not in present:
                return ('attackgraph.edges:child-not-in-graph', 'node %s(%s) has child %s(%s) which is not in the graph' % (n.full_name, n.id, c.full_name, c.id))
            if not any(p is n for p in c.parents):
                return ('attackgraph.edges:converse-parent-missing', '%s(%s) -> %s(%s) is not mirrored in parents' % (n.full_name, n.id, c.full_name, c.id))
        for p in n.parents:
            if id(p) not in present:
                return ('attackgraph.edges:parent-not-in-graph', 'node %s(%s) has parent %s(%s) which is not in the graph' % (n.full_name, n.id, p.full_name, p.id))
            if not any(c is n for c in p.children):
                return ('attackgraph.edges:converse-child-missing', '%s(%s) <- %s(%s) is not mirrored in children' % (n.full_name, n.id, p.full_name, p.id))
        # multiplicities agree as well
        for c in {id(x): x for x in n.children}.values():
            a = sum(1 for x in n.children if x is c)
            b = sum(1 for x in c.parents if x is n)
            if a != b:
                return ('attackgraph.edges:multiplicity-mismatch', '%s lists child %s %d times, which lists it as parent %d times' % (n.full_name, c.full_name, a, b))
    # I2 lookups
    probe_ids = set(ids) | {getattr(n, 'id', None) for n in ever_nodes} | {-1, (max([i for i in ids if isinstance(i, int)] + [0]) + 1)}
    nxt = getattr(graph, 'next_node_id', None)
    if isinstance(nxt, int):
        probe_ids |= {nxt, nxt + 1}
    for i in probe_ids:
        if i is None:
            continue
        got = graph.get_node_by_id(i)
        want = ids.get(i)
        if got is not want:
            if want is None:
                return ('attackgraph.lookup:stale-id', 'get_node_by_id(%r) returns %s which is not in the graph' % (i, getattr(got, 'full_name', got)))
            return ('attackgraph.lookup:by-id', 'get_node_by_id(%r) does not return the node with that id' % (i,))
    names = {}
    for n in nodes:
        names.setdefault(n.full_name, []).append(n)
    for nm in set(names) | set(ever_names) | {'no:such'}:
        got = graph.get_node_by_full_name(nm)
        cands = names.get(nm, [])
        if not cands:
            if got is not None:
                return ('attackgraph.lookup:stale-name', 'get_node_by_full_name(%r) returns a node that is not in the graph' % nm)
        elif len(cands) == 1:
            if got is not cands[0]:
                return ('attackgraph.lookup:by-full-name', 'get_node_by_full_name(%r) does not return the node with that name' % nm)
        elif not any(got is c for c in cands):
            return ('attackgraph.lookup:by-full-name', 'get_node_by_full_name(%r) returns a node that does not have that name' % nm)
    # I3 attackers
    atts = list(graph.attackers)
    apresent = {id(a) for a in atts}
    aids = {}
    for a in atts:
        if a.id in aids:
            return ('attackgraph.attackers:duplicate-id', 'attacker id %r twice' % (a.id,))
        aids[a.id] = a
        for n in list(a.reached_attack_steps) + list(a.entry_points):
            if id(n) not in present:
                kind = 'reached' if any(n is x for x in a.reached_attack_steps) else 'entry-point'
                return ('attackgraph.attackers:%s-node-not-in-graph' % kind,
                        'attacker %s(%s) references node %s(%s) which is not in the graph' % (a.name, a.id, n.full_name, n.id))
    for n in nodes:
        for a in n.compromised_by:
            if id(a) not in apresent:
                return ('attackgraph.nodes:compromised-by-absent-attacker', 'node %s lists attacker %s(%s) which is not in the graph' % (n.full_name, a.name, a.id))
    probe = set(aids) | {getattr(a, 'id', None) for a in ever_attackers} | {-1, 10 ** 6}
    for i in probe:
        if i is None:
            continue
        got = graph.get_attacker_by_id(i)
        if got is not aids.get(i):
            return ('attackgraph.lookup:%s' % ('stale-attacker-id' if aids.get(i) is None else 'attacker-by-id'),
                    'get_attacker_by_id(%r) is wrong' % (i,))
    return None


def check_compromise_symmetry(graph, ever_attackers=(), removed=None, ever_nodes=()):
    """C11 relation symmetry, identity based, over present and removed attackers (and node objects that left the graph)"""
    live = {id(n) for n in graph.nodes}
    for n in ever_nodes:
        if id(n) in live:
            continue
        for a in n.compromised_by:
            if not any(x is n for x in a.reached_attack_steps):
                return ('compromise:asymmetric-compromised-not-reached:node-that-left-the-graph',
                        'node %s was removed from the graph and still lists attacker %s(%s), who does not list the node as reached' % (n.full_name, a.name, a.id))
    atts = {id(a): a for a in list(graph.attackers) + list(ever_attackers)}
    for a in atts.values():
        seen = set()
        for n in a.reached_attack_steps:
            if id(n) in seen:
                return ('compromise:node-reached-twice', 'attacker %s lists node %s twice as reached' % (a.name, n.full_name))
            seen.add(id(n))
            if not any(x is a for x in n.compromised_by):
                return ('compromise:asymmetric-reached-not-compromised',
                        'attacker %s(%s) lists %s as reached but the node does not list the attacker' % (a.name, a.id, n.full_name))
    for n in graph.nodes:
        seen = set()
        for a in n.compromised_by:
            if id(a) in seen:
                return ('compromise:attacker-listed-twice', 'node %s lists attacker %s twice' % (n.full_name, a.name))
            seen.add(id(a))
            if not any(x is n for x in a.reached_attack_steps):
                return ('compromise:asymmetric-compromised-not-reached',
                        'node %s lists attacker %s(%s) but the attacker does not list the node as reached' % (n.full_name, a.name, a.id))
    present = {id(a) for a in graph.attackers}
    for a in (ever_attackers if removed is None else removed):
        if id(a) in present:
            continue
        for n in graph.nodes:
            if any(x is a for x in n.compromised_by):
                return ('compromise:removed-attacker-still-compromises', 'node %s is still compromised by removed attacker %s' % (n.full_name, a.name))
    return None


# ---- deep structural snapshot ------------------------------------------------------------------------
def snapshot(graph):
    """JSON-able deep structure of everything observable, not via shared objects"""
    nid = {id(n): i for i, n in enumerate(graph.nodes)}

    def ref(n):
        return nid.get(id(n), ('foreign', getattr(n, 'id', None), getattr(n, 'name', None)))
    aid = {id(a): i for i, a in enumerate(graph.attackers)}
    out = {'nodes': [], 'attackers': [], 'next_node_id': getattr(graph, 'next_node_id', None),
           'next_attacker_id': getattr(graph, 'next_attacker_id', None)}
    for n in graph.nodes:
        out['nodes'].append({
            'id': n.id, 'type': n.type, 'name': n.name, 'full_name': n.full_name, 'ttc': copy.deepcopy(n.ttc),
            'asset': id(n.asset) if n.asset is not None else None,
            'children': [ref(c) for c in n.children], 'parents': [ref(p) for p in n.parents],
            'defense_status': n.defense_status, 'existence_status': n.existence_status,
            'is_viable': n.is_viable, 'is_necessary': n.is_necessary,
            'compromised_by': [aid.get(id(a), ('foreign', a.id)) for a in n.compromised_by],
            'mitre_info': n.mitre_info, 'tags': copy.deepcopy(n.tags), 'extras': copy.deepcopy(n.extras),
            'attributes': copy.deepcopy(n.attributes),
        })
    for a in graph.attackers:
        out['attackers'].append({'id': a.id, 'name': a.name, 'entry_points': [ref(n) for n in a.entry_points],
                                 'reached': [ref(n) for n in a.reached_attack_steps]})
    return out


def snap_diff(a, b):
    from .props.C03 import first_diff
    return first_diff(a, b)


def all_edge_sets(n, self_loops=True):
    pairs = [(i, j) for i in range(n) for j in range(n) if self_loops or i != j]
    for r in range(len(pairs) + 1):
        for c in itertools.combinations(pairs, r):
            yield list(c)

"""Fan a property out to shard subprocesses, aggregate, write evidence, decide.

exit 0  held on everything explored (KNOWN-FINDING lines allowed)
exit 1  VIOLATION property=<id> replay=<path>   (a violation not listed as known)
exit 2  INCONCLUSIVE property=<id> reason=...   (nothing may be concluded)
"""
from __future__ import annotations

import argparse
import importlib
import json
import os
import subprocess
import sys
import time

VERIF = os.path.dirname(os.path.dirname(os.path.abspath(__file__)))
PY = '/venv/bin/python'


def load_known():
    p = os.path.join(VERIF, 'known_findings.json')
    if not os.path.exists(p):
        return []
    with open(p) as f:
        return json.load(f)['findings']


def shard_env(hashseed='0'):
    env = dict(os.environ)
    env['PYTHONHASHSEED'] = hashseed
    env['PYTHONPATH'] = VERIF
    env['PYTHONDONTWRITEBYTECODE'] = '1'
    env['MAL_TOOLBOX_VERIF'] = '1'
    return env


def run_shards(prop, tier, seed, nshards, scratch, extra=None, timeout=None):
    procs = []
    for i in range(nshards):
        out = os.path.join(scratch, 'shard-%d.json' % i)
        cmd = [PY, '-m', 'mtv.shard', prop, '--tier', tier, '--seed', str(seed),
               '--shard', str(i), '--of', str(nshards), '--out', out] + (extra or [])
        log = open(os.path.join(scratch, 'shard-%d.log' % i), 'w')
        p = subprocess.Popen(cmd, env=shard_env(), cwd=scratch, stdout=log, stderr=subprocess.STDOUT)
        procs.append((i, p, out, log))
    results, problems = [], []
    deadline = time.time() + (timeout or 3600)
    for i, p, out, log in procs:
        try:
            rc = p.wait(timeout=max(1, deadline - time.time()))
        except subprocess.TimeoutExpired:
            p.kill()
            p.wait()
            problems.append('shard %d: watchdog fired' % i)
            continue
        finally:
            log.close()
        if rc != 0 or not os.path.exists(out):
            tail = ''
            try:
                with open(os.path.join(scratch, 'shard-%d.log' % i)) as f:
                    tail = f.read()[-1500:]
            except OSError:
                pass
            problems.append('shard %d: exit %s: %s' % (i, rc, tail.strip().replace('\n', ' | ')))
            continue
        with open(out) as f:
            results.append(json.load(f))
    return results, problems


def aggregate(results):
    agg = {'evaluations': 0, 'nontrivial': set(), 'counters': {}, 'samples': [],
           'violations': [], 'viol_counts': {}, 'inconclusive': [], 'reach': {}, 'notes': {}}
    for r in results:
        agg['evaluations'] += r['evaluations']
        agg['nontrivial'].update(r['nontrivial'])
        for k, v in r['counters'].items():
            agg['counters'][k] = agg['counters'].get(k, 0) + v
        for k, v in r['reach'].items():
            agg['reach'][k] = agg['reach'].get(k, 0) + v
        for k, v in r['viol_counts'].items():
            agg['viol_counts'][k] = agg['viol_counts'].get(k, 0) + v
        if len(agg['samples']) < 4:
            agg['samples'].extend(r['samples'][:2])
        agg['violations'].extend(r['violations'])
        for x in r['inconclusive']:
            if x not in agg['inconclusive']:
                agg['inconclusive'].append(x)
        for k, v in r['notes'].items():
            agg['notes'].setdefault(k, v)
    return agg


def main(argv=None):
    ap = argparse.ArgumentParser()
    ap.add_argument('prop')
    ap.add_argument('--tier', default=os.environ.get('VERIF_TIER', 'quick'), choices=['quick', 'thorough'])
    ap.add_argument('--replay')
    ap.add_argument('--shards', type=int, default=int(os.environ.get('MTV_SHARDS', '0')))
    ap.add_argument('--no-evidence', action='store_true')
    args = ap.parse_args(argv)
    prop = args.prop
    seed = int(os.environ.get('VERIF_SEED', '0') or 0)
    sys.path.insert(0, VERIF)
    from mtv import env as menv

    if args.replay:
        cmd = [PY, '-m', 'mtv.shard', prop, '--replay', os.path.abspath(args.replay)]
        scratch = menv.enter_scratch()
        rc = subprocess.call(cmd, env=shard_env(), cwd=scratch)
        return rc

    meta = importlib.import_module('mtv.props.' + prop).META
    nshards = args.shards or meta.get('shards', {}).get(args.tier, 16 if args.tier == 'thorough' else 8)
    nshards = max(1, min(nshards, os.cpu_count() or 4))
    scratch = menv.enter_scratch()
    t0 = time.time()
    watchdog = meta.get('watchdog_s', {}).get(args.tier, 1800 if args.tier == 'quick' else 4 * 3600)
    results, problems = run_shards(prop, args.tier, seed, nshards, scratch, timeout=watchdog)
    agg = aggregate(results)
    wall = time.time() - t0

    known = [k for k in load_known() if k['property'] == prop and k.get('status') == 'known']
    known_keys = {k['key']: k for k in known}
    ev_dir = os.path.join(VERIF, 'evidence')
    rp_dir = os.path.join(ev_dir, 'replay') if not args.no_evidence else os.path.join(menv.scratch_root(), 'replay-no-evidence')
    os.makedirs(rp_dir, exist_ok=True)

    unknown, seen_known = [], {}
    for n, v in enumerate(agg['violations']):
        path = os.path.join(rp_dir, '%s-%d.json' % (prop, n))
        if v['key'] in known_keys:
            if v['key'] not in seen_known:
                seen_known[v['key']] = v
                with open(os.path.join(rp_dir, '%s-known-%s.json' % (prop, v['key'].replace(':', '_').replace('/', '_'))), 'w') as f:
                    json.dump({'property': prop, 'key': v['key'], 'what': v['what'], 'case': v['case']}, f, indent=1, default=repr)
        else:
            with open(path, 'w') as f:
                json.dump({'property': prop, 'key': v['key'], 'what': v['what'], 'case': v['case']}, f, indent=1, default=repr)
            unknown.append((v, path))

    inconclusive = list(agg['inconclusive']) + problems
    if not results:
        inconclusive.append('no shard produced a result')
    # the deciding monitors must have been reached
    for fn, n in sorted(agg['reach'].items()):
        if n == 0:
            inconclusive.append('anchored function never entered: ' + fn)
    # class quotas: calibrated on the quick tier (seeds 0-6); the thorough tier explores >= 10x more, it must
    # reach at least 5x the quick quota of every class
    quotas = dict(meta.get('quotas', {}).get('quick', {}))
    # quotas of the shared workload classes (interference, exotic strings, ...), calibrated by tools/calib.py --write:
    # a fifth of the minimum seen over seeds 0-3 of the quick tier
    extra_path = os.path.join(VERIF, 'mtv', 'quotas_extra.json')
    if os.path.exists(extra_path):
        with open(extra_path) as f:
            for k, v in json.load(f).get(prop, {}).items():
                quotas.setdefault(k, v)
    if args.tier == 'thorough':
        fixed = set(meta.get('quotas_fixed', []))        # counters of parts whose size does not grow with the tier
        quotas = {k: (v if k in fixed else 5 * v) for k, v in quotas.items()}
    for name, minimum in quotas.items():
        if agg['counters'].get(name, 0) < minimum:
            inconclusive.append('class quota not met: %s=%d < %d' % (name, agg['counters'].get(name, 0), minimum))
    if len(agg['nontrivial']) < 2 and not inconclusive:
        inconclusive.append('fewer than 2 distinct non-trivial cases')

    verdict = 'violated' if unknown else ('inconclusive' if inconclusive else 'held')
    evidence = {
        'property_id': prop, 'tier': args.tier, 'seed': seed,
        'level': meta.get('level', 'exploration'),
        'coverage': {
            'evaluations': agg['evaluations'],
            'distinct_nontrivial': len(agg['nontrivial']),
            'rule': meta['rule'],
            'samples': agg['samples'][:4] or ['(none)'],
            'exhaustive': bool(agg['notes'].get('exhaustive', False)),
            'counters': dict(sorted(agg['counters'].items())),
            'reach': dict(sorted(agg['reach'].items())),
            'shards': len(results),
            'verdict': verdict,
            'known_findings_seen': sorted(seen_known),
            'violation_keys': dict(sorted(agg['viol_counts'].items())),
            'inconclusive_reasons': inconclusive,
            'notes': agg['notes'],
        },
        'assumptions': meta.get('assumptions', []),
        'wall_s': round(wall, 2),
        'violations': sum(v for k, v in agg['viol_counts'].items() if k not in known_keys),
    }
    if not args.no_evidence:
        with open(os.path.join(ev_dir, prop + '.json'), 'w') as f:
            json.dump(evidence, f, indent=1, default=repr, sort_keys=False)
            f.write('\n')

    print('%s tier=%s seed=%d shards=%d evaluations=%d distinct_nontrivial=%d wall=%.1fs verdict=%s' % (
        prop, args.tier, seed, len(results), agg['evaluations'], len(agg['nontrivial']), wall, verdict))
    if os.environ.get('MTV_PRINT_COUNTERS'):
        import re
        for k, v in sorted(agg['counters'].items()):
            if re.search(os.environ['MTV_PRINT_COUNTERS'], k):
                print('  counter %s=%d' % (k, v))
    for k in sorted(seen_known):
        print('KNOWN-FINDING: property=%s %s %s (seen %d times)' % (prop, k, known_keys[k]['what'], agg['viol_counts'].get(k, 0)))
    for k in known_keys:
        if k not in seen_known:
            print('note: listed finding not observed in this run: %s' % k)
    if unknown:
        shown = set()
        for v, path in unknown:
            if v['key'] in shown:
                continue
            shown.add(v['key'])
            print('VIOLATION property=%s replay=%s' % (prop, path))
            print('  key=%s' % v['key'])
            print('  what=%s' % (str(v['what'])[:600]))
        return 1
    if inconclusive:
        for r in inconclusive:
            print('INCONCLUSIVE property=%s reason=%s' % (prop, r))
        return 2
    return 0


if __name__ == '__main__':
    sys.exit(main())

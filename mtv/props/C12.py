"""C12 - attack-surface queries follow their definition; incremental = recomputed."""
from __future__ import annotations

import copy
import itertools

from ..mon import Reach
from ..result import Budget, digest, safe
from .. import agraph

META = {
    'rule': ('graphs with arbitrary viability / necessity labels set directly and several attackers: every answer of '
             'is_node_traversable_by_attacker (all nodes x all attackers), get_attack_surface, get_defense_surface and '
             'get_enabled_defenses is compared with the definition of C12 (identity sets, no duplicates); after each of 1-10 '
             'batches of new compromises update_attack_surface_add_nodes(previous surface, batch) is compared with '
             'get_attack_surface from scratch; a deep structural snapshot of the graph (not via shared objects) is compared '
             'before / after every query. EXHAUSTIVE: all 2-node graphs over 16 node kinds (type x viable x necessary) x all edge '
             'sets incl. self-loops x all compromised subsets (quick and thorough), all 3-node loop-free graphs (thorough; '
             'sampled in quick); random graphs with up to 150 nodes, 1-3 attackers, defense values next to 0 and 1, and-steps with 13-129 parents whose necessary parents are exactly / all but one reached; non-trivial = some and-node has both a '
             'necessary and an unnecessary parent or some reached node has a non-traversable child; distinct = digest(case)'
             '; added strata: defense values next to 0 and 1, and-steps with 13-129 parents, attackers with entry points but nothing reached, the simulation continued on a deep copy / on a saved-and-loaded graph'),
    'assumptions': ['definitions as stated in C12; defense / exist / notExist nodes are never traversable'],
    'shards': {'quick': 8, 'thorough': 16},
    'quotas': {
        'quick': {'traversable-answers': 50000, 'answer:or:True': 1000, 'answer:or:False': 1000, 'answer:and:True': 1000,
                  'answer:and:False': 1000, 'answer:defense:False': 500, 'surfaces-compared': 5000, 'incremental-steps-compared': 2000,
                  'class:and-mixed-necessary-parents': 500, 'class:batch-shares-child': 100, 'defense-surfaces-compared': 4000,
                  'class:suppressed-defense': 100, 'snapshots-compared': 10000, 'class:other-attacker-compromised-parent': 200, 'class:labels-changed-between-queries': 100,
                  'class:queries-continue-on-a-deep-copy': 60, 'class:queries-continue-on-a-saved-and-loaded-graph': 20, 'class:and-fan-in-over-12:True': 25, 'class:and-fan-in-over-12:False': 200, 'class:defense-status-next-to-0-or-1': 80},
        'thorough': {'traversable-answers': 5000000, 'surfaces-compared': 500000, 'incremental-steps-compared': 200000},
    },
}
RANDOM = {'quick': 1600, 'thorough': 120000}
SECONDS = {'quick': 300, 'thorough': 600}
EDGE_STATUS = [1 - 1e-12, 0.9999999999, 0.999999999, 0.9999999999999999, 0.999999, 1e-12, 1e-9, 5e-324, 1e-6, 2.2250738585072014e-308]
KINDS12 = [(t, v, n) for t in ('or', 'and', 'defense0', 'defense1') for v in (True, False) for n in (True, False)]


def make_desc(kinds, edges, tags=None):
    nodes = []
    for i, (t, v, nec) in enumerate(kinds):
        typ = 'defense' if t.startswith('defense') else t
        nd = {'type': typ, 'name': 'n%d' % i, 'ttc': None, 'defense_status': None, 'existence_status': None,
              'tags': list((tags or {}).get(i, [])), 'extras': {}, 'is_viable': v, 'is_necessary': nec}
        if typ == 'defense':
            nd['defense_status'] = 1.0 if t == 'defense1' else (0.0 if t == 'defense0' else float(t[7:]))
        if typ in ('exist', 'notExist'):
            nd['existence_status'] = True
        nodes.append(nd)
    return {'nodes': nodes, 'edges': [list(e) for e in edges]}


def ref_traversable(desc, parents, i, compromised):
    nd = desc['nodes'][i]
    if not nd['is_viable']:
        return False
    if nd['type'] == 'or':
        return True
    if nd['type'] == 'and':
        return all((p in compromised) for p in parents[i] if desc['nodes'][p]['is_necessary'])
    return False


def ref_surface(desc, parents, children, compromised):
    out = set()
    for r in compromised:
        for c in children[r]:
            if ref_traversable(desc, parents, c, compromised):
                out.add(c)
    return out


def _check(case, res, count=True):
    """case: desc, attackers: [list of batches (lists of node indices)]"""
    from maltoolbox.attackgraph import Attacker
    from maltoolbox.attackgraph import query
    desc = copy.deepcopy(case['desc'])
    g, objs = agraph.build(desc)
    n = len(objs)
    idx = {id(o): i for i, o in enumerate(objs)}
    parents = [[] for _ in range(n)]
    children = [[] for _ in range(n)]
    for a, b in desc['edges']:
        if a not in parents[b]:
            parents[b].append(a)
        if b not in children[a]:
            children[a].append(b)
    atts = []
    for k, batches in enumerate(case['attackers']):
        a = Attacker(name='att%d' % k, entry_points=[], reached_attack_steps=[])
        eps = (case.get('entry_points') or [])
        if k < len(eps) and eps[k]:
            # entry points are declared, nothing is reached yet: the surface is empty until something is compromised
            g.add_attacker(a, entry_points=[objs[i % n].id for i in eps[k]])
            if count:
                res.count('class:entry-points-declared-nothing-reached')
        else:
            g.add_attacker(a)
        atts.append(a)
    comp = [set() for _ in atts]
    surfaces = [None] * len(atts)

    def queried(label, fn):
        before = agraph.snapshot(g)
        out = fn()
        after = agraph.snapshot(g)
        if count:
            res.count('snapshots-compared')
        if before != after:
            raise AssertionError(('query:%s-changes-graph' % label, '%s changed the graph at %s' % (label, agraph.snap_diff(before, after))))
        return out

    def cnt(name, k=1):
        if count:
            res.count(name, k)
    try:
        # defense surface / enabled defenses
        ds = queried('get_defense_surface', lambda: query.get_defense_surface(g))
        ed = queried('get_enabled_defenses', lambda: query.get_enabled_defenses(g))
        cnt('defense-surfaces-compared')
        want_ds = [i for i, nd in enumerate(desc['nodes']) if nd['type'] == 'defense' and 'suppress' not in nd['tags'] and nd['defense_status'] != 1.0]
        want_ed = [i for i, nd in enumerate(desc['nodes']) if nd['type'] == 'defense' and 'suppress' not in nd['tags'] and nd['defense_status'] == 1.0]
        if any(nd['type'] == 'defense' and 'suppress' in nd['tags'] for nd in desc['nodes']):
            cnt('class:suppressed-defense')
        if any(nd['type'] == 'defense' and 'suppress' not in nd['tags'] and nd['defense_status'] not in (0.0, 0.5, 1.0) for nd in desc['nodes']):
            cnt('class:defense-status-next-to-0-or-1')
        got_ds = sorted(idx[id(x)] for x in ds)
        got_ed = sorted(idx[id(x)] for x in ed)
        if got_ds != want_ds:
            return ('query.defense-surface:wrong-set', 'defense surface %s expected %s' % (got_ds, want_ds))
        if got_ed != want_ed:
            return ('query.enabled-defenses:wrong-set', 'enabled defenses %s expected %s' % (got_ed, want_ed))
        rounds = max(len(b) for b in case['attackers']) if case['attackers'] else 0
        for r in range(rounds + 1):
            if r > 0 and case.get('copy_at') == r:
                # the simulation continues on a deep copy of the graph (attackers and what they reached included)
                if case.get('copy_how') == 'reload':
                    from maltoolbox.attackgraph import AttackGraph
                    g2 = AttackGraph._from_dict(copy.deepcopy(g._to_dict()), model=None)
                    cnt('class:queries-continue-on-a-saved-and-loaded-graph')
                else:
                    g2 = copy.deepcopy(g)
                if len(g2.nodes) != n or len(g2.attackers) != len(atts):
                    return ('query:deepcopy-lost-objects', 'the deep copy has %d nodes / %d attackers' % (len(g2.nodes), len(g2.attackers)))
                new_objs = [g2.get_node_by_id(o.id) for o in objs]
                new_atts = [g2.get_attacker_by_id(a.id) for a in atts]
                if any(x is None for x in new_objs + new_atts):
                    return ('query:deepcopy-lost-objects', 'a node / attacker id of the original is unknown to the copy')
                surfaces = [None if s0 is None else [new_objs[idx[id(x)]] for x in s0] for s0 in surfaces]
                g, objs, atts = g2, new_objs, new_atts
                idx = {id(o): i for i, o in enumerate(objs)}
                cnt('class:queries-continue-on-a-deep-copy')
            if r > 0 and case.get('relabel'):
                # the analysis is re-run between two queries (a defense was changed): labels flip in place.
                # A surface computed before is no longer comparable, the queries must follow the new labels.
                import random as _random
                rr = _random.Random(case['relabel'] * 31 + r)
                flipped = False
                for i in range(n):
                    if rr.random() < 0.2:
                        which = rr.choice(['is_viable', 'is_necessary'])
                        desc['nodes'][i][which] = not desc['nodes'][i][which]
                        setattr(objs[i], which, desc['nodes'][i][which])
                        flipped = True
                if flipped:
                    cnt('class:labels-changed-between-queries')
                    surfaces = [None] * len(atts)
            for k, a in enumerate(atts):
                batches = case['attackers'][k]
                new = []
                if r > 0:
                    if r - 1 >= len(batches):
                        continue
                    for i in batches[r - 1]:
                        i = i % n
                        if i not in comp[k]:
                            a.compromise(objs[i])
                            comp[k].add(i)
                            new.append(i)
                # traversability of every node
                answers = queried('is_node_traversable_by_attacker',
                                  lambda: [query.is_node_traversable_by_attacker(objs[i], a) for i in range(n)])
                for i in range(n):
                    got = answers[i]
                    want = ref_traversable(desc, parents, i, comp[k])
                    cnt('traversable-answers')
                    cnt('answer:%s:%s' % (desc['nodes'][i]['type'], want))
                    if desc['nodes'][i]['type'] == 'and':
                        ps = parents[i]
                        if len(ps) > 12 and any(not desc['nodes'][p]['is_necessary'] and p not in comp[k] for p in ps):
                            cnt('class:and-fan-in-over-12:%s' % want)
                        if any(desc['nodes'][p]['is_necessary'] for p in ps) and any(not desc['nodes'][p]['is_necessary'] for p in ps):
                            cnt('class:and-mixed-necessary-parents')
                        if any(p not in comp[k] and any(p in comp[j] for j in range(len(atts)) if j != k) for p in ps if desc['nodes'][p]['is_necessary']):
                            cnt('class:other-attacker-compromised-parent')
                    if bool(got) != want or not isinstance(got, bool):
                        return ('query.traversable:%s-node-wrong-answer' % desc['nodes'][i]['type'],
                                'is_node_traversable_by_attacker(node %d %s viable=%s, parents %s necessary %s, attacker %d compromised %s) = %r, definition says %s' % (
                                    i, desc['nodes'][i]['type'], desc['nodes'][i]['is_viable'], parents[i],
                                    [desc['nodes'][p]['is_necessary'] for p in parents[i]], k, sorted(comp[k]), got, want))
                # surface from scratch
                s = queried('get_attack_surface', lambda: query.get_attack_surface(a))
                cnt('surfaces-compared')
                got = [idx.get(id(x)) for x in s]
                want = ref_surface(desc, parents, children, comp[k])
                if len(set(got)) != len(got):
                    return ('query.surface:duplicates', 'attack surface of attacker %d contains duplicates: %s' % (k, got))
                if set(got) != want:
                    return ('query.surface:wrong-set', 'attack surface of attacker %d (compromised %s) = %s, definition says %s' % (k, sorted(comp[k]), sorted(got, key=str), sorted(want)))
                # incremental
                if r > 0 and surfaces[k] is not None:
                    if len(new) >= 2 and any(c in children[new[0]] for x in new[1:] for c in children[x]):
                        cnt('class:batch-shares-child')
                    # the caller extends the list it got earlier (the function works in place); half of the time a copy
                    prev = surfaces[k] if (r + k) % 2 == 0 else list(surfaces[k])
                    inc = queried('update_attack_surface_add_nodes',
                                  lambda: query.update_attack_surface_add_nodes(a, prev, [objs[i] for i in new]))
                    cnt('incremental-steps-compared')
                    goti = [idx.get(id(x)) for x in inc]
                    if len(set(goti)) != len(goti):
                        return ('query.surface-incremental:duplicates', 'incremental surface of attacker %d contains duplicates: %s (batch %s)' % (k, goti, new))
                    if set(goti) != want:
                        return ('query.surface-incremental:differs-from-recomputed',
                                'attacker %d after batch %s: incremental surface %s, recomputed %s' % (k, new, sorted(goti, key=str), sorted(want)))
                surfaces[k] = s
    except AssertionError as exc:
        if exc.args and isinstance(exc.args[0], tuple):
            return exc.args[0]
        raise
    return None


check = safe(_check)


def nontrivial(case):
    desc = case['desc']
    n = len(desc['nodes'])
    parents = [[] for _ in range(n)]
    for a, b in desc['edges']:
        parents[b].append(a)
    for i, nd in enumerate(desc['nodes']):
        if nd['type'] == 'and':
            ps = parents[i]
            if any(desc['nodes'][p]['is_necessary'] for p in ps) and any(not desc['nodes'][p]['is_necessary'] for p in ps):
                return True
    return any(not nd['is_viable'] for nd in desc['nodes']) and bool(desc['edges'])


def run(rng, res, tier, shard, nshards):
    from maltoolbox.attackgraph import query
    from maltoolbox.attackgraph.node import AttackGraphNode
    reach = Reach()
    for fn in ('is_node_traversable_by_attacker', 'get_attack_surface', 'update_attack_surface_add_nodes',
               'get_defense_surface', 'get_enabled_defenses'):
        reach.add('query.' + fn, getattr(query, fn, None))
    reach.add('AttackGraphNode.is_available_defense', AttackGraphNode.is_available_defense)
    reach.add('AttackGraphNode.is_enabled_defense', AttackGraphNode.is_enabled_defense)
    reach.start()
    budget = Budget(10 ** 9, SECONDS[tier])
    seen = set()

    def report(f, case):
        if f:
            if f[0] not in seen:
                seen.add(f[0])
                res.violation(f[0], f[1], case)
            else:
                res.viol_counts[f[0]] = res.viol_counts.get(f[0], 0) + 1
    # exhaustive 2-node graphs: all kinds x all edge sets incl self loops x all compromised subsets (as one batch), 1 attacker
    n = 0
    for kinds in itertools.product(KINDS12, repeat=2):
        for edges in agraph.all_edge_sets(2, True):
            for sub in ([], [0], [1], [0, 1]):
                n += 1
                if n % nshards != shard:
                    continue
                case = {'desc': make_desc(kinds, edges), 'attackers': [[sub]] if sub else [[]]}
                f = check(case, res)
                res.count('exhaustive-2-node-cases')
                res.case(digest(case) if nontrivial(case) else None)
                report(f, case)
    res.notes['exhaustive'] = False
    res.notes['exhaustive_part'] = 'all %d (2-node graph over 16 node kinds, edge set incl. self-loops, compromised subset) cases' % n
    full3 = tier == 'thorough'
    n = 0
    for kinds in itertools.product(KINDS12, repeat=3):
        for edges in agraph.all_edge_sets(3, False):
            n += 1
            if n % nshards != shard:
                continue
            if not full3 and rng.random() > 0.004:
                continue
            if not budget.more():
                break
            subs = [s for r in range(4) for s in itertools.combinations(range(3), r)]
            sub = list(rng.choice(subs)) if not full3 else None
            for sb in ([sub] if sub is not None else [list(s) for s in subs]):
                case = {'desc': make_desc(kinds, edges), 'attackers': [[sb]] if sb else [[]]}
                f = check(case, res)
                res.count('three-node-cases')
                res.case(digest(case) if nontrivial(case) else None)
                report(f, case)
    if full3:
        res.notes['exhaustive_part'] += '; all 3-node loop-free graphs over 16 kinds x all compromised subsets'
    # random larger graphs, several attackers, batches
    for _ in range(RANDOM[tier] // nshards):
        if not budget.more():
            break
        size = rng.choice([3, 4, 6, 10, 20, 40, 60] + ([150] if rng.random() < 0.1 else []))
        kinds = []
        tags = {}
        edge_status = rng.random() < 0.3       # defense values next to, but not at, 0 and 1
        for i in range(size):
            t = rng.choice(['or', 'or', 'and', 'and', 'and', 'defense0', 'defense1', 'defense0.5', 'exist', 'notExist'])
            if edge_status and t.startswith('defense') and rng.random() < 0.6:
                t = 'defense' + repr(rng.choice(EDGE_STATUS))
            kinds.append((t, rng.random() < 0.75, rng.random() < 0.6))
            if t.startswith('defense') and rng.random() < 0.3:
                tags[i] = rng.choice([['suppress'], ['hidden'], ['suppress', 'x'], ['suppressed']])
        p = min(0.5, 3.0 / size)
        edges = [[i, j] for i in range(size) for j in range(size) if (i != j or rng.random() < 0.05) and rng.random() < p]
        hub = None
        if size >= 20 and rng.random() < 0.25:
            # an and-step with a large fan-in (13 .. size-1 parents), necessary and unnecessary ones mixed
            hub = rng.randrange(size)
            kinds[hub] = ('and', rng.random() < 0.9, kinds[hub][2])
            fan = rng.choice([13, 14, 16, 20, 33, 64, 129])
            ps = rng.sample([i for i in range(size) if i != hub], min(fan, size - 1))
            edges = [e for e in edges if e[1] != hub] + [[i, hub] for i in ps]
            rng.shuffle(edges)
        desc = make_desc(kinds, edges, tags)
        atts = []
        for _k in range(rng.randint(1, 3)):
            atts.append([[rng.randrange(size) for _ in range(rng.randint(1, 4))] for _ in range(rng.randint(1, 10))])
        if hub is not None:
            # one attacker reaches exactly the necessary parents of the hub (in 1-3 batches), another all but one
            nec = [i for i, h in edges if h == hub and kinds[i][2]]
            rng.shuffle(nec)
            if nec:
                cut = sorted(rng.sample(range(len(nec) + 1), min(2, len(nec) + 1)))
                atts[0] = [b for b in (nec[:cut[0]], nec[cut[0]:cut[-1]], nec[cut[-1]:]) if b]
                if len(atts) > 1:
                    atts[1] = [nec[1:]] if len(nec) > 1 else [[]]
        case = {'desc': desc, 'attackers': atts, 'relabel': rng.randrange(1, 10 ** 6) if rng.random() < 0.3 else None,
                'entry_points': [[rng.randrange(1000) for _ in range(rng.randint(1, 3))] if rng.random() < 0.4 else [] for _ in atts],
                'copy_at': rng.randint(1, 4) if rng.random() < 0.2 else None, 'copy_how': rng.choice(['deepcopy', 'deepcopy', 'reload'])}
        f = check(case, res)
        res.count('random-cases')
        res.case(digest(case) if nontrivial(case) else None)
        if len(res.samples) < 3 and nontrivial(case):
            res.sample({'nodes': [(nd['type'], nd['is_viable'], nd['is_necessary']) for nd in desc['nodes']][:10], 'edges': desc['edges'][:20], 'attackers': atts[:2]})
        report(f, case)
    if budget.timed_out():
        res.notes['time-cap-hit'] = True
    reach.stop()
    res.reach = dict(reach.counts)


def replay(case, res):
    f = check(case, res)
    res.case(None)
    if f:
        res.violation(f[0], f[1], case)

"""C04 - the MAL compiler's output is the language the source text denotes."""
from __future__ import annotations

import copy
import json
import os
import shutil
import tempfile

from ..mon import Reach
from ..stream import cpu_budget, TooExpensive
from ..result import Budget, digest, safe
from ..stream import corelang_spec
from ..gen_lang import gen_language, Cfg
from ..malprint import layout, print_spec, p_expr
from .C03 import first_diff

META = {
    'rule': ('random well-formed specifications (every step type, nested set/collect/transitive/subtype/variable trees '
             'incl. re-associated non-canonical shapes, TTC arithmetic with nested operators, all multiplicity forms, '
             'meta strings) printed with minimal parenthesisation in a random layout (single file, order-preserving '
             'split over includes, repeated includes, nested includes, arbitrary split) and compiled by the real '
             'MalCompiler / LanguageGraph.from_mal_spec; the returned dict is compared field by field with the '
             'generating spec (exactly for order-preserving layouts, up to list order otherwise); the two shipped '
             'coreLang .mar specs are printed and recompiled in every shard (reference-compiler output); '
             'non-trivial = spec contains a non-atomic step expression or a composite TTC; distinct = digest(spec, layout kind)'
             '; added strata: meta strings with CR / CRLF / NEL / FF, a broken version of one file compiled at the same path first (fix-and-recompile session), per-case CPU budget'
             '; round 7: every spelling of a multiplicity (*..N, *..*)'),
    'assumptions': ['the printer mtv/malprint.py emits the text denoted by the spec (validated by the 0-difference round '
                    'trip of both malc-compiled coreLang specs)', 'malc itself is not available offline: for random '
                    'programs the oracle is the generating spec'],
    'shards': {'quick': 8, 'thorough': 16},
    'quotas': {
        'quick': {'class:failed-compilation-of-the-same-path-before': 100, 'layout:single': 50, 'layout:ordered-split': 50, 'layout:repeated': 30, 'layout:nested': 30,
                  'layout:arbitrary-split': 30, 'corelang-roundtrips': 2, 'ttc:composite': 50, 'expr:collect': 100,
                  'expr:union': 20, 'expr:intersection': 20, 'expr:difference': 20, 'expr:subType': 20,
                  'expr:transitive': 20, 'expr:variable': 20, 'expr:reassociated': 20, 'via-from_mal_spec': 30, 'class:field-named-like-a-step': 30},
        'thorough': {'layout:single': 5000, 'layout:ordered-split': 5000, 'layout:repeated': 3000, 'layout:nested': 3000,
                     'layout:arbitrary-split': 3000, 'corelang-roundtrips': 2, 'ttc:composite': 5000,
                     'expr:collect': 10000, 'expr:union': 2000, 'expr:intersection': 2000, 'expr:difference': 2000,
                     'expr:subType': 2000, 'expr:transitive': 2000, 'expr:variable': 2000, 'expr:reassociated': 2000,
                     'via-from_mal_spec': 3000},
    },
}
CASES = {'quick': 1500, 'thorough': 120000}
SECONDS = {'quick': 300, 'thorough': 600}
KINDS = ['single', 'single', 'ordered-split', 'ordered-split', 'repeated', 'nested', 'arbitrary-split']


def reassociate(rng, e):
    """random tree rotations that keep the meaning but change the shape:
    collect(collect(a,b),c) <-> collect(a,collect(b,c)); setop chains likewise
    are NOT rotated (set difference is not associative)."""
    if not isinstance(e, dict) or 'type' not in e:
        return e, False
    changed = False
    k = e['type']
    if k == 'collect':
        l, c1 = reassociate(rng, e['lhs'])
        r, c2 = reassociate(rng, e['rhs'])
        e = {'type': 'collect', 'lhs': l, 'rhs': r}
        changed = c1 or c2
        if l['type'] == 'collect' and rng.random() < 0.4:
            e = {'type': 'collect', 'lhs': l['lhs'], 'rhs': {'type': 'collect', 'lhs': l['rhs'], 'rhs': r}}
            changed = True
        return e, changed
    if k in ('union', 'intersection', 'difference'):
        l, c1 = reassociate(rng, e['lhs'])
        r, c2 = reassociate(rng, e['rhs'])
        return {'type': k, 'lhs': l, 'rhs': r}, c1 or c2
    if k in ('subType', 'transitive'):
        s, c = reassociate(rng, e['stepExpression'])
        out = dict(e)
        out['stepExpression'] = s
        return out, c
    return e, False


def hostile_spec(rng, spec, res):
    """tree-shape variants: the compiler must reproduce any tree"""
    n = 0
    for a in spec['assets']:
        for v in a['variables']:
            v['stepExpression'], c = reassociate(rng, v['stepExpression'])
            n += c
        for s in a['attackSteps']:
            for grp in ('requires', 'reaches'):
                if s[grp]:
                    lst = s[grp]['stepExpressions']
                    for i in range(len(lst)):
                        lst[i], c = reassociate(rng, lst[i])
                        n += c
    if n:
        res.count('expr:reassociated', n)
    return spec


def clash_names(rng, spec):
    """rename one association field to the name of an attack step of the asset type that navigates it.  malc
    rejects such a language, but the compiler under test classifies names by POSITION only (last component of a
    reaches expression = attack step, everything else = field), so the round trip must still be exact; it is the
    one input class where a memo keyed by expression text gives itself away.  Returns True when applied."""
    from ..ref_sem import Lang
    lang = Lang(spec, snapshot=False)
    cands = []
    for a in spec['associations']:
        for fld, holder in ((a['leftField'], a['rightAsset']), (a['rightField'], a['leftAsset'])):
            names = [n for n in lang.step_names(holder)]
            if names:
                cands.append((fld, rng.choice(names)))
    if not cands:
        return False
    old, new = rng.choice(cands)
    if any(new in (a['leftField'], a['rightField']) for a in spec['associations']):
        return False

    def ren(e):
        if isinstance(e, dict):
            if e.get('type') == 'field' and e.get('name') == old:
                e['name'] = new
            for v in e.values():
                ren(v)
        elif isinstance(e, list):
            for v in e:
                ren(v)
    for a in spec['associations']:
        for k in ('leftField', 'rightField'):
            if a[k] == old:
                a[k] = new
    ren(spec['assets'])
    return True


def norm_unordered(spec):
    s = copy.deepcopy(spec)
    key = lambda x: json.dumps(x, sort_keys=True)
    s['categories'] = sorted(s['categories'], key=key)
    s['assets'] = sorted(s['assets'], key=lambda a: a['name'])
    s['associations'] = sorted(s['associations'], key=key)
    return s


def compile_files(files, root, via_graph=False, broken_first=None, res=None):
    from maltoolbox.language.compiler import MalCompiler
    from maltoolbox.language import LanguageGraph
    d = tempfile.mkdtemp(prefix='c04-', dir=os.getcwd())
    try:
        for n, t in files.items():
            with open(os.path.join(d, n), 'w', encoding='utf-8', newline='') as f:
                f.write(t)
        if broken_first is not None:
            # the edit / compile / fix / compile session: one file first holds a typo (the compilation fails, or not -
            # that is C17's business), then the file is corrected at the same path and the program compiled again
            import random
            brng = random.Random(broken_first)
            victim = brng.choice(sorted(files))
            text = files[victim]
            cut = brng.randrange(max(1, len(text) // 2), max(2, len(text)))
            broken = text[:cut] + brng.choice(['$', ' } } ', ' asset { ', '"'])
            with open(os.path.join(d, victim), 'w', encoding='utf-8', newline='') as f:
                f.write(broken)
            shared = MalCompiler()
            for _ in range(brng.choice([1, 1, 3])):
                try:
                    if via_graph:
                        LanguageGraph.from_mal_spec(os.path.join(d, root))
                    else:
                        (shared if brng.random() < 0.5 else MalCompiler()).compile(os.path.join(d, root))
                except Exception:
                    if res is not None:
                        res.count('class:failed-compilation-of-the-same-path-before')
            with open(os.path.join(d, victim), 'w', encoding='utf-8', newline='') as f:
                f.write(text)
        # (CPU budget: a compilation of one of these small programs takes milliseconds; when it runs away the case is
        # skipped and counted, never judged)
        if via_graph:
            return LanguageGraph.from_mal_spec(os.path.join(d, root))._lang_spec
        return MalCompiler().compile(os.path.join(d, root))
    finally:
        shutil.rmtree(d, ignore_errors=True)


def classify_key(diff, spec):
    d = diff or ''
    for tag in ('ttc', 'reaches', 'requires', 'variables', 'Multiplicity', 'meta', 'tags', 'risk', 'defines',
                'categories', 'superAsset', 'isAbstract', 'associations'):
        if tag in d:
            return 'compiler.output:differs-in-' + tag
    return 'compiler.output:differs'


def _check_case(case, res, count=True):
    import random
    spec = case['spec']
    rng = random.Random(case['layout_seed'])
    try:
        files, root, ordered = layout(spec, rng, case['kind'])
    except ValueError as exc:
        res.inconc('printer refused a generated spec: %s' % exc)
        return None
    case['files'] = files
    try:
        with cpu_budget(30.0):
            out = compile_files(files, root, via_graph=case.get('via_graph', False), broken_first=case.get('broken_first'), res=res if count else None)
    except TooExpensive:
        res.count('skipped:too-expensive')
        return None
    except Exception as exc:
        return ('compiler:raised-%s' % type(exc).__name__, 'compiling a well-formed program (%s layout) raised %r' % (case['kind'], exc))
    if count:
        res.count('layout:' + case['kind'])
        if case.get('via_graph'):
            res.count('via-from_mal_spec')
    want, got = (spec, out) if ordered else (norm_unordered(spec), norm_unordered(out))
    d = first_diff(want, got)
    if d:
        return (classify_key(d, spec), 'layout %s: compile(print(spec)) differs from spec at %s' % (case['kind'], d))
    return None


check_case = safe(_check_case)


def count_kinds(spec, res):
    from ..ref_sem import expr_kinds
    k = expr_kinds(spec)
    nt = False
    for name in ('collect', 'union', 'intersection', 'difference', 'subType', 'transitive', 'variable'):
        if k.get(name):
            res.count('expr:' + name, k[name])
            nt = True
    comp = sum(k.get(x, 0) for x in ('addition', 'subtraction', 'multiplication', 'division', 'exponentiation'))
    if comp:
        res.count('ttc:composite', comp)
        nt = True
    for a in spec['associations']:
        for side in ('leftMultiplicity', 'rightMultiplicity'):
            m = a[side]
            res.count('mult:%s..%s' % (m['min'], '*' if m['max'] is None else m['max']))
    return nt


def run(rng, res, tier, shard, nshards):
    from maltoolbox.language.compiler import MalCompiler
    from maltoolbox.language.compiler.mal_visitor import malVisitor
    reach = Reach()
    reach.add('MalCompiler.compile', MalCompiler.compile)
    for fn in ('visitMal', 'visitExpr', 'visitParts', 'visitPart', '_resolve_part_ID_type', 'visitTtcexpr',
               'visitTtcterm', 'visitTtcfact', 'visitAssociation', '_post_process_multitudes'):
        reach.add('malVisitor.' + fn, getattr(malVisitor, fn, None))
    reach.start()
    # reference-compiler output: both shipped coreLang specs, every shard
    for variant in ('core', 'union'):
        spec = corelang_spec(variant)
        case = {'spec': spec, 'kind': 'single', 'layout_seed': 0}
        first = check_case(case, res, count=False)
        res.count('corelang-roundtrips')
        res.case(digest([variant, 'corelang']))
        if first:
            res.violation('compiler.corelang:' + first[0], first[1], {'corelang_variant': variant, 'kind': 'single', 'layout_seed': 0})
    budget = Budget(CASES[tier] // nshards + 1, SECONDS[tier])
    while budget.more():
        cfg = Cfg(transitive_nonfield=0.3, max_depth=rng.choice([2, 3, 4, 4, 6]), large=rng.random() < 0.04)
        if rng.random() < 0.2:
            cfg.same_sig_dups, cfg.dup_assoc_names = 0.6, 0.5      # associations that differ in their fields only
        spec = hostile_spec(rng, gen_language(rng, cfg), res)
        kind = rng.choice(KINDS)
        case = {'spec': spec, 'kind': kind, 'layout_seed': rng.randrange(10 ** 9), 'via_graph': rng.random() < 0.15,
                'broken_first': rng.randrange(10 ** 9) if rng.random() < 0.25 else None}
        if not case['via_graph'] and rng.random() < 0.15 and clash_names(rng, spec):
            res.count('class:field-named-like-a-step')
        nt = count_kinds(spec, res)
        first = check_case(case, res)
        res.case(digest([spec, kind]) if nt else None)
        if res.evaluations <= 5 and 'files' in case:
            res.sample({'layout': kind, 'files': {n: t[:600] for n, t in case['files'].items()}})
        if first:
            c = {k: v for k, v in case.items() if k != 'files'}
            res.violation(first[0], first[1], {'case': c, 'files': case.get('files')})
    if budget.timed_out():
        res.notes['time-cap-hit'] = True
    reach.stop()
    res.reach = dict(reach.counts)


def replay(case, res):
    if 'corelang_variant' in case:
        c = {'spec': corelang_spec(case['corelang_variant']), 'kind': case['kind'], 'layout_seed': case['layout_seed']}
    else:
        c = case['case']
    first = check_case(c, res)
    res.case(None)
    if first:
        res.violation(first[0], first[1], case)

"""C17 - malformed MAL source is rejected, never half-compiled."""
from __future__ import annotations

import os
import shutil
import tempfile

from ..mon import Reach
from ..result import Budget, digest
from ..gen_lang import gen_language, Cfg
from ..malprint import layout, print_spec
from .. import malfuzz
from ..env import VERIF_DIR

META = {
    'rule': ('valid MAL programs (hand-written corpus, printed coreLang, random generated programs in single-file and '
             'include layouts) x token-level mutations (delete / delete-range / duplicate / swap / insert / replace a '
             'token, truncate at a token boundary, unbalance a bracket, keyword token used as identifier, illegal '
             'character; in the root file or in an included file); EXHAUSTIVE single-token deletions and truncations of '
             'the small corpus files; each mutated program is labelled by the grammar itself (the same generated '
             'lexer/parser with counting error listeners, over the root and every included file); violated iff the '
             'grammar reports >= 1 error and MalCompiler().compile / LanguageGraph.from_mal_spec nevertheless returns; '
             'non-trivial = the grammar classifies the mutated text as erroneous; distinct = digest(files)'
             '; added strata: characters no rule matches but str.splitlines / strip treat as breaks, include paths with a directory part and a well-formed decoy, 17-33 include levels, one compiler object asked 12 times, another directory with the same file names loaded first'),
    'assumptions': ['the oracle is the grammar\'s own verdict (S10); text the grammar silently ignores after the last '
                    'declaration (rule mal has no trailing EOF) is counted but outside the property'],
    'shards': {'quick': 8, 'thorough': 16},
    'quotas_fixed': ['x-delete', 'x-truncate', 'class:another-directory-with-the-same-file-names-loaded-first'],
    'quotas': {
        'quick': {'class:include-chain-of-17-or-more-files': 60, 'class:same-compiler-object-asked-12-times': 30, 'class:another-directory-with-the-same-file-names-loaded-first': 4, 'mutation:exotic-char:erroneous': 80, 'class:include-with-directory-part-and-wellformed-decoy': 50, 'label:erroneous': 1000, 'erroneous:lexer-error': 100, 'erroneous:parser-error': 1000,
                  'erroneous-in-included-file': 100, 'erroneous:raised': 1000, 'x-delete': 70, 'x-truncate': 70,
                  'via-from_mal_spec': 100, 'erroneous:compiled-twice': 300},
        'thorough': {'label:erroneous': 200000, 'erroneous:lexer-error': 10000, 'erroneous:parser-error': 100000,
                     'erroneous-in-included-file': 10000, 'erroneous:raised': 200000, 'x-delete': 3000, 'x-truncate': 3000,
                     'via-from_mal_spec': 10000},
    },
}
CASES = {'quick': 5000, 'thorough': 400000}
SECONDS = {'quick': 300, 'thorough': 600}


def run_program(files, root, via_graph=False, repeat=0):
    """returns ('raised', exc type name) or ('returned', None)"""
    from maltoolbox.language.compiler import MalCompiler
    from maltoolbox.language import LanguageGraph
    d = tempfile.mkdtemp(prefix='c17-', dir=os.getcwd())
    try:
        for n, t in files.items():
            os.makedirs(os.path.dirname(os.path.join(d, n)), exist_ok=True)
            with open(os.path.join(d, n), 'w', encoding='utf-8', newline='') as f:
                f.write(t)
        outcome = None
        shared = MalCompiler() if (len(files) + len(root)) % 2 == 0 or repeat > 3 else None
        for attempt in range(1 + max(0, repeat)):
            # the same path compiled again (a new compiler object, or the same one) must give the same verdict
            try:
                if via_graph:
                    LanguageGraph.from_mal_spec(os.path.join(d, root))
                else:
                    (shared or MalCompiler()).compile(os.path.join(d, root))
            except RecursionError:
                now = ('raised', 'RecursionError')
            except Exception as exc:
                now = ('raised', type(exc).__name__)
            else:
                now = ('returned', None)
            if outcome is None:
                outcome = now
            elif now[0] != outcome[0]:
                return ('returned' if now[0] == 'returned' else outcome[0]), 'second-compile-of-the-same-path-%s' % now[0]
        return outcome
    finally:
        shutil.rmtree(d, ignore_errors=True)


def check_program(files, root, mclass, where, res, via_graph=False, count=True, many=False):
    label, detail = malfuzz.label_program(files, root)
    if count:
        res.count('label:' + label)
        res.count('mutation:%s:%s' % (mclass, label))
    if label == 'unreadable':
        return None, label
    repeat = 1 if (label == 'erroneous' and hash(mclass) % 3 == 0 or mclass in ('x-delete', 'delete', 'swap')) else 0
    if label == 'erroneous' and many:
        repeat = 11          # the same compiler object is asked again and again
        if count:
            res.count('class:same-compiler-object-asked-12-times')
    from ..stream import cpu_budget, TooExpensive
    try:
        with cpu_budget(30.0):       # these programs compile in milliseconds; a run-away compilation is skipped, not judged
            outcome, exc = run_program(files, root, via_graph, repeat=repeat)
    except TooExpensive:
        if count:
            res.count('skipped:too-expensive')
        return None, label
    if count and label == 'erroneous' and (mclass in ('x-delete', 'delete', 'swap')):
        res.count('erroneous:compiled-twice')
    if count and via_graph:
        res.count('via-from_mal_spec')
    if label == 'erroneous':
        if count:
            if detail['lexer']:
                res.count('erroneous:lexer-error')
            if detail['parser']:
                res.count('erroneous:parser-error')
            if where != root:
                res.count('erroneous-in-included-file')
            res.count('erroneous:' + outcome)
        if outcome == 'returned':
            kind = 'lexer' if detail['lexer'] and not detail['parser'] else 'parser'
            if exc and str(exc).startswith('second-compile'):
                kind += ':on-recompile'
            return ('compiler:syntax-errors-not-raised:%s%s' % (kind, '' if where == root else ':in-included-file'),
                    'grammar reports %d lexer / %d parser errors (%s mutation in %s) but compilation returned a specification' % (
                        detail['lexer'], detail['parser'], mclass, where)), label
    else:
        if count:
            res.count('valid:' + outcome)
            if detail.get('ignored_tail'):
                res.count('valid:text-ignored-after-last-declaration')
    return None, label


def base_programs(rng, tier):
    """valid programs to mutate: [(files, root)]"""
    progs = []
    for fn in ('small.mal', 'tiny.mal'):
        with open(os.path.join(VERIF_DIR, 'corpus', fn), encoding='utf-8') as f:
            progs.append(({'main.mal': f.read()}, 'main.mal'))
    return progs


def run(rng, res, tier, shard, nshards):
    from maltoolbox.language.compiler import MalCompiler
    reach = Reach()
    reach.add('MalCompiler.compile', MalCompiler.compile)
    reach.start()
    corpus = base_programs(rng, tier)
    # a well-formed program called main.mal (with an include part1.mal) in another directory is loaded first, through
    # LanguageGraph.from_mal_spec and through MalCompiler, and stays on disk for the whole run
    from maltoolbox.language import LanguageGraph
    keep_dir = tempfile.mkdtemp(prefix='c17-first-', dir=os.getcwd())
    with open(os.path.join(keep_dir, 'main.mal'), 'w', encoding='utf-8') as f:
        f.write('include "part1.mal"\n' + corpus[1][0]['main.mal'])
    with open(os.path.join(keep_dir, 'part1.mal'), 'w', encoding='utf-8') as f:
        f.write('category Elsewhere { asset ElsewhereOnly { | reach } }\n')
    for nm in ('part2.mal', 'part3.mal', 'p1.mal', 'p2.mal', 'c1.mal', 'chain-main.mal'):
        with open(os.path.join(keep_dir, nm), 'w', encoding='utf-8') as f:
            f.write('category Elsewhere { asset Elsewhere%s { | reach } }\n' % nm.split('.')[0].replace('-', ''))
    try:
        LanguageGraph.from_mal_spec(os.path.join(keep_dir, 'main.mal'))
        MalCompiler().compile(os.path.join(keep_dir, 'main.mal'))
        res.count('class:another-directory-with-the-same-file-names-loaded-first')
    except Exception as exc:
        res.inconc('the first program did not load: %r' % (exc,))
    # the unmutated corpus must be valid for the grammar and compile
    for files, root in corpus:
        label, _ = malfuzz.label_program(files, root)
        out, exc = run_program(files, root)
        if label != 'valid' or out != 'returned':
            res.inconc('corpus program is not accepted (%s, %s %s)' % (label, out, exc))
    # exhaustive single-token deletions / truncations of the small corpus, split over the shards
    n = 0
    for files, root in corpus:
        for mclass, text in malfuzz.exhaustive_single(files[root]):
            n += 1
            if n % nshards != shard:
                continue
            f2 = {root: text}
            first, label = check_program(f2, root, mclass, root, res)
            res.count(mclass)
            res.case(digest(f2) if label == 'erroneous' else None)
            if first:
                res.violation(first[0], first[1], {'files': f2, 'root': root, 'mutation': mclass})
    res.notes['exhaustive'] = False
    res.notes['exhaustive_part'] = 'all single-token deletions and truncations of corpus/small.mal and corpus/tiny.mal (split over the shards)'
    budget = Budget(CASES[tier] // nshards + 1, SECONDS[tier])
    base = None
    while budget.more():
        if base is None or rng.random() < 0.05:
            r = rng.random()
            if r < 0.2:
                files, root = rng.choice(corpus)
                files = dict(files)
            elif r < 0.25 and tier == 'thorough':
                from ..stream import corelang_spec
                files, root = {'main.mal': print_spec(corelang_spec('core'))}, 'main.mal'
            else:
                spec = gen_language(rng, Cfg(max_assets=4, max_assocs=3))
                kind = rng.choice(['single', 'ordered-split', 'nested', 'arbitrary-split', 'repeated'])
                files, root, _ = layout(spec, rng, kind)
            toks = {n: malfuzz.tokenize(t) for n, t in files.items()}
            base = (files, root, toks)
        files, root, toks = base
        where = rng.choice(sorted(files)) if rng.random() < 0.5 else root
        mclass, text = malfuzz.mutate(rng, files[where], toks[where])
        f2 = dict(files)
        f2[where] = text
        if rng.random() < 0.15:
            # a second mutation elsewhere
            w2 = rng.choice(sorted(files))
            m2, t2 = malfuzz.mutate(rng, f2[w2])
            f2[w2] = t2
            mclass += '+' + m2
        if where != root and rng.random() < 0.25:
            # the include statement names a path with a directory part: the file next to the main file is the one
            # that is included (and it is malformed); the unmutated text sits at the literal path as a decoy
            stmt = 'include "%s"' % where
            if any(stmt in t for t in f2.values()):
                sub = rng.choice(['inc', 'common', 'lib/mal'])
                for n2 in list(f2):
                    f2[n2] = f2[n2].replace(stmt, 'include "%s/%s"' % (sub, where))
                f2['%s/%s' % (sub, where)] = files[where]
                res.count('class:include-with-directory-part-and-wellformed-decoy')
        if rng.random() < 0.06:
            # a long include chain above the program: main -> c1 -> ... -> c<k> -> the program's root
            k = rng.choice([17, 18, 20, 25, 33])
            f2['c%d.mal' % k] = 'include "%s"\n' % root
            for j in range(k - 1, 0, -1):
                f2['c%d.mal' % j] = 'include "c%d.mal"\n' % (j + 1)
            f2['chain-main.mal'] = 'include "c1.mal"\n'
            root2 = 'chain-main.mal'
            res.count('class:include-chain-of-17-or-more-files')
        else:
            root2 = root
        via = rng.random() < 0.1
        first, label = check_program(f2, root2, mclass.split('+')[0], where, res, via_graph=via, many=rng.random() < 0.04)
        res.case(digest(f2) if label == 'erroneous' else None)
        if len(res.samples) < 3 and label == 'erroneous':
            res.sample({'mutation': mclass, 'in_file': where, 'files': {n: t[:400] for n, t in f2.items()}})
        if first:
            res.violation(first[0], first[1], {'files': f2, 'root': root2, 'mutation': mclass, 'via_graph': via})
    if budget.timed_out():
        res.notes['time-cap-hit'] = True
    reach.stop()
    res.reach = dict(reach.counts)
    shutil.rmtree(keep_dir, ignore_errors=True)


def replay(case, res):
    first, label = check_program(case['files'], case['root'], case.get('mutation', '?').split('+')[0], case['root'], res,
                                 via_graph=case.get('via_graph', False))
    res.case(None)
    if first:
        res.violation(first[0], first[1], case)

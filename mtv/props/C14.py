"""C14 - a deep copy of an attack graph is equal and fully independent."""
from __future__ import annotations

import copy
import json

from ..mon import Reach
from ..result import Budget, digest, safe
from .. import agraph
from ..stream import gen_case, Built, TooExpensive
from ..gen_lang import Cfg
from ..gen_model import MCfg
from . import C09

META = {
    'rule': ('attack graphs from generated languages / coreLang / hand-built descriptions after a random C09 history (attackers, '
             'compromises, analysis, pruning, removals incl. the node / attacker with the highest id, node extras, tags, TTCs of '
             'every kind): copy.deepcopy(graph) is compared with the original (serialisation, counters, every lookup, the id the '
             'next add_node / add_attacker hands out), must share model and language graph but no node, no attacker and no mutable '
             'per-node container at any nesting depth (children / parents / compromised_by lists, tags, extras, ttc incl. nested '
             'arguments / operands), and every reference reachable from the copy must stay inside the copy; then 20 random '
             'mutations (C09 operations and in-place edits of ttc / tags / extras, nested ones included) are applied to one of '
             'the two graphs while a deep structural snapshot of the OTHER is compared before / after each; 10% of the cases: node '
             'extras that refer to nodes / the attacker of the same graph (itself, earlier, later, mutually) and one extras '
             'object attached to several nodes - every graph object reachable from the copy\'s extras must be the copy\'s own; non-trivial = graph '
             'with >= 2 nodes, >= 1 edge and an attacker or analysis state; distinct = digest(case)'
             '; added strata: node extras that refer to nodes / the attacker of the graph (itself, mutually, from several reached steps), a model asset renamed before the copy'),
    'assumptions': ['the model and the language graph are meant to be shared (C14)'],
    'shards': {'quick': 8, 'thorough': 16},
    'quotas': {
        'quick': {'class:extras-refer-to-graph-objects': 20, 'extras-references-checked': 60, 'copies-compared': 200, 'containers-compared': 9000, 'mutations-applied': 5000, 'side:copy': 2000,
                  'side:original': 2000, 'mutation:ttc-nested': 200, 'mutation:tags': 300, 'mutation:extras-nested': 80,
                  'class:highest-id-removed-before-copy': 40, 'class:copy-with-attackers': 100, 'next-ids-compared': 200, 'mutation:op:attach': 100, 'class:copied-inside-a-holder': 50},
        'thorough': {'copies-compared': 40000, 'containers-compared': 1000000, 'mutations-applied': 600000},
    },
}
CASES = {'quick': 1000, 'thorough': 50000}
SECONDS = {'quick': 300, 'thorough': 600}


def mutables(x, path, out):
    if isinstance(x, dict):
        out.append((path, x))
        for k, v in x.items():
            mutables(v, path + '/' + str(k), out)
    elif isinstance(x, list):
        out.append((path, x))
        for i, v in enumerate(x):
            mutables(v, '%s[%d]' % (path, i), out)


def compare_copy(g, c, res, count=True, renamed=False):
    if c is g:
        return ('deepcopy:same-object', 'deepcopy returned the graph itself')
    if c.model is not g.model or c.lang_graph is not g.lang_graph:
        return ('deepcopy:model-or-language-not-shared', 'the copy does not share the model / language graph')
    a, b = g._to_dict(), c._to_dict()
    if a != b:
        from .C03 import first_diff
        return ('deepcopy:serialisation-differs', 'copy serialises differently at %s' % first_diff(a, b))
    if [n.id for n in g.nodes] != [n.id for n in c.nodes] or [t.id for t in g.attackers] != [t.id for t in c.attackers]:
        return ('deepcopy:order-differs', 'node / attacker order differs')
    for attr in ('next_node_id', 'next_attacker_id'):
        if hasattr(g, attr) and getattr(g, attr) != getattr(c, attr):
            return ('deepcopy:counter-differs', '%s is %r in the copy, %r in the original' % (attr, getattr(c, attr), getattr(g, attr)))
    gn = {id(n) for n in g.nodes}
    ga = {id(t) for t in g.attackers}
    for n in c.nodes:
        if id(n) in gn:
            return ('deepcopy:node-shared', 'node %s is the same object in copy and original' % n.full_name)
    for t in c.attackers:
        if id(t) in ga:
            return ('deepcopy:attacker-shared', 'attacker %s is the same object in copy and original' % t.name)
    # containers, at any depth
    for n, m in zip(g.nodes, c.nodes):
        for rel in ('children', 'parents', 'compromised_by'):
            if getattr(n, rel) is getattr(m, rel):
                return ('deepcopy:%s-list-shared' % rel, 'node %s shares its %s list' % (n.full_name, rel))
            for x in getattr(m, rel):
                if id(x) in gn or id(x) in ga:
                    return ('deepcopy:reference-into-original', 'copy node %s has a %s entry that belongs to the original' % (m.full_name, rel))
        for attr in ('tags', 'extras', 'ttc'):
            x, y = [], []
            mutables(getattr(n, attr), attr, x)
            mutables(getattr(m, attr), attr, y)
            ids = {id(o): p for p, o in x}
            if count:
                res.count('containers-compared', len(y))
            for p, o in y:
                if id(o) in ids:
                    return ('deepcopy:%s-shared%s' % (attr, '' if p == attr else '-nested'),
                            'node %s: container %s of the copy is the same object as %s of the original' % (n.full_name, p, ids[id(o)]))
    for t in c.attackers:
        for rel in ('entry_points', 'reached_attack_steps'):
            for x in getattr(t, rel):
                if id(x) in gn:
                    return ('deepcopy:reference-into-original', 'copy attacker %s has a %s entry that belongs to the original' % (t.name, rel))
    for t, u in zip(g.attackers, c.attackers):
        for rel in ('entry_points', 'reached_attack_steps'):
            if getattr(t, rel) is getattr(u, rel):
                return ('deepcopy:attacker-list-shared', 'attacker %s shares its %s list' % (t.name, rel))
    # lookups of the copy return the copy's own objects
    for n0, n in zip(g.nodes, c.nodes):
        if c.get_node_by_id(n.id) is not n:
            return ('deepcopy:lookup-by-id', 'copy.get_node_by_id(%r) does not return the copy\'s node' % n.id)
        if n.full_name != n0.full_name:
            return ('deepcopy:full-name-differs', 'node %r of the original is called %r in the copy' % (n0.full_name, n.full_name))
        # same lookups as the original: where the original finds its node under its full name, the copy finds its own
        orig_ok = g.get_node_by_full_name(n0.full_name) is n0
        if orig_ok and c.get_node_by_full_name(n.full_name) is not n and len([x for x in c.nodes if x.full_name == n.full_name]) == 1:
            return ('deepcopy:lookup-by-full-name', 'copy.get_node_by_full_name(%r) does not return the copy\'s node' % n.full_name)
    for t in c.attackers:
        if c.get_attacker_by_id(t.id) is not t:
            return ('deepcopy:lookup-attacker', 'copy.get_attacker_by_id(%r) does not return the copy\'s attacker' % t.id)
    if not renamed:
        f = agraph.check_invariants(c) or agraph.check_compromise_symmetry(c)
        if f:
            return ('deepcopy:' + f[0], 'copy: ' + f[1])
        f = agraph.check_invariants(g) or agraph.check_compromise_symmetry(g)
        if f:
            return ('deepcopy-original:' + f[0], 'original after copying: ' + f[1])
    return None


def graph_objects(x, out, seen=None):
    """AttackGraphNode / Attacker objects reachable through dicts and lists"""
    from maltoolbox.attackgraph import AttackGraphNode, Attacker
    if isinstance(x, (AttackGraphNode, Attacker)):
        out.append(x)
    elif isinstance(x, dict):
        for v in x.values():
            graph_objects(v, out)
    elif isinstance(x, (list, tuple)):
        for v in x:
            graph_objects(v, out)


def check_extras_refs(case, res, count=True):
    """per-node data that refers to other nodes / attackers of the same graph ("all its internal references stay
    inside the copy"), and one extras object attached to several nodes (no mutable per-node data shared)"""
    import random
    from maltoolbox.attackgraph import Attacker
    rng = random.Random(case['seed'])
    g, objs = agraph.build(case['start'][1])
    if len(objs) < 2:
        return None
    att = Attacker(name='a', entry_points=[], reached_attack_steps=[])
    g.add_attacker(att)
    att.compromise(objs[0])
    for o in rng.sample(objs, min(len(objs), rng.randint(1, 4))):
        att.compromise(o)
    shared = {'asset-record': {'owner': 'x', 'l': [1, 2]}}
    for n in objs:
        r = rng.random()
        if r < 0.3:
            n.extras = {'see': rng.choice(objs)}                     # may be a node later or earlier in graph.nodes, or itself
        elif r < 0.45:
            n.extras = {'path': [rng.choice(objs) for _ in range(3)], 'by': att}
        elif r < 0.7:
            n.extras = shared
    if rng.random() < 0.5:
        for n in att.reached_attack_steps:
            n.extras = {'taken_by': att}                              # every reached step remembers its attacker
    try:
        c = copy.deepcopy(g)
    except Exception as exc:
        return ('deepcopy:raised-%s' % type(exc).__name__, 'copy.deepcopy raised %r (node extras refer to nodes of the graph)' % (exc,))
    if count:
        res.count('class:extras-refer-to-graph-objects')
    own = {id(x) for x in c.nodes} | {id(x) for x in c.attackers}
    orig = {id(x) for x in g.nodes} | {id(x) for x in g.attackers}
    if len(c.nodes) != len(g.nodes) or len(c.attackers) != len(g.attackers):
        return ('deepcopy:order-differs', 'the copy has %d nodes / %d attackers, the original %d / %d' % (len(c.nodes), len(c.attackers), len(g.nodes), len(g.attackers)))
    for n, m in zip(g.nodes, c.nodes):
        found, want = [], []
        graph_objects(m.extras, found)
        graph_objects(n.extras, want)
        if count:
            res.count('extras-references-checked', len(found))
        if len(found) != len(want):
            return ('deepcopy:extras-reference-lost', 'node %s: the extras of the copy hold %d graph objects, the original %d' % (n.full_name, len(found), len(want)))
        for x, w in zip(found, want):
            if id(x) in orig:
                return ('deepcopy:reference-into-original', 'extras of copied node %s refer to an object of the original graph' % m.full_name)
            if id(x) not in own:
                return ('deepcopy:extras-reference-leaves-the-copy',
                        'extras of copied node %s refer to %s %r which is neither in the copy nor in the original (a detached clone)' % (m.full_name, type(x).__name__, getattr(x, 'id', None)))
            if x.id != w.id or type(x) is not type(w):
                return ('deepcopy:extras-reference-to-other-object', 'extras of copied node %s refer to %s %r, the original\'s to %r' % (m.full_name, type(x).__name__, x.id, w.id))
        if isinstance(m.extras, dict) and m.extras is n.extras and m.extras:
            return ('deepcopy:extras-shared', 'node %s shares its extras with the original' % n.full_name)
    for m in c.nodes:
        if m.extras is shared or (isinstance(m.extras, dict) and m.extras.get('asset-record') is shared['asset-record']):
            return ('deepcopy:extras-shared-nested', 'the extras object attached to several nodes is shared between copy and original')
    f = agraph.check_invariants(c) or agraph.check_compromise_symmetry(c)
    if f:
        return ('deepcopy:' + f[0], 'copy: ' + f[1])
    # later changes stay invisible
    for m in c.nodes:
        if isinstance(m.extras, dict) and 'asset-record' in m.extras:
            m.extras['asset-record']['l'].append(3)
            break
    if shared['asset-record']['l'] != [1, 2]:
        return ('deepcopy:mutation-visible-in-other:extras-nested', 'a change of the copy\'s extras is visible in the original')
    return None


def next_ids_agree(g, c, res, count=True):
    """the ids handed out next must agree (behavioural form of the counters)"""
    from maltoolbox.attackgraph import AttackGraphNode, Attacker
    if count:
        res.count('next-ids-compared')
    n1, n2 = AttackGraphNode(type='or', name='probe'), AttackGraphNode(type='or', name='probe')
    g.add_node(n1)
    c.add_node(n2)
    ok = n1.id == n2.id
    g.remove_node(n1)
    c.remove_node(n2)
    if not ok:
        return ('deepcopy:next-node-id-differs', 'the next node gets id %r in the original and %r in the copy' % (n1.id, n2.id))
    a1, a2 = Attacker(name='probe'), Attacker(name='probe')
    g.add_attacker(a1)
    c.add_attacker(a2)
    ok = a1.id == a2.id
    g.remove_attacker(a1)
    c.remove_attacker(a2)
    if not ok:
        return ('deepcopy:next-attacker-id-differs', 'the next attacker gets id %r in the original and %r in the copy' % (a1.id, a2.id))
    return None


def mutate(rng, world, k, res, count=True):
    """one random mutation of graph #k; returns a label"""
    g = world.graphs[k]['g']
    nodes = list(g.nodes)
    r = rng.random()
    if r < 0.45 or not nodes:
        op = C09.gen_history(rng, 1, False)[0]
        if op[0] in ('deepcopy', 'save-load', 'switch', 'regenerate', 'attach'):
            op = ['remove_node', rng.randrange(1000)]
        if g.model is not None and rng.random() < 0.15:
            op = ['attach']          # resolves entry points: must stay inside this graph
        world.cur = k
        C09.apply(world, op)
        return 'op:' + op[0]
    n = rng.choice(nodes)
    r = rng.random()
    if r < 0.3:
        if n.ttc is None:
            n.ttc = {'type': 'function', 'name': 'Exponential', 'arguments': [0.5]}
            return 'ttc-assign'
        x = []
        mutables(n.ttc, 'ttc', x)
        p, o = rng.choice(x)
        if isinstance(o, list):
            o.append(0.25)
        else:
            o['mutated'] = rng.random()
        return 'ttc-nested' if p != 'ttc' else 'ttc-top'
    if r < 0.55:
        if isinstance(n.tags, list):
            n.tags.append('t%d' % rng.randrange(100))
        return 'tags'
    if r < 0.8:
        x = []
        mutables(n.extras, 'extras', x)
        p, o = rng.choice(x)
        if isinstance(o, list):
            o.append(1)
        else:
            o['k%d' % rng.randrange(100)] = {'nested': [1]}
        return 'extras-nested' if p != 'extras' else 'extras-top'
    if r < 0.9:
        n.is_viable = not n.is_viable
        return 'flag'
    n.name = n.name + '_r'
    return 'rename'


def _check_case(case, res, count=True):
    import random
    start = tuple(case['start'])
    if start[0] == 'desc-refs':
        return check_extras_refs(case, res, count)
    world = C09.World(res, False)
    if start[0] == 'desc':
        g, _ = agraph.build(start[1])
        world.add_graph(g, None)
    else:
        try:
            built = Built(start[1], attackers=True, explicit_ids=True)
            g = built.attack_graph()
        except TooExpensive:
            if count:
                res.count('skipped:too-expensive')
            return None
        except Exception as exc:
            return ('build:raised-%s' % type(exc).__name__, 'building a generated case raised %r' % (exc,))
        world.add_graph(g, built)
    for op in case['history']:
        f = C09.apply(world, op)
        if f:
            return None
    g = world.graphs[0]['g']
    rng = random.Random(case['seed'])
    for n in g.nodes:
        r = rng.random()
        if r < 0.15:
            n.extras = copy.deepcopy(rng.choice([{'x': 1}, {'pos': {'x': 1, 'y': [2, 3]}}, {'l': [[1], [2]]}]))
        if r > 0.85:
            n.tags = rng.sample(['hidden', 'suppress', 'trace', 't1'], rng.randint(1, 3))
        if 0.4 < r < 0.5:
            n.ttc = copy.deepcopy(rng.choice([agraph.COMPOSITE, agraph.DIST, {'type': 'function', 'name': 'Gamma', 'arguments': [1.0, 2.0]}]))
    if count:
        ids = [n.id for n in g.nodes]
        if ids and getattr(g, 'next_node_id', 0) > max(ids) + 1:
            res.count('class:highest-id-removed-before-copy')
        if g.attackers:
            res.count('class:copy-with-attackers')
    if case.get('rename_asset') is not None and getattr(g, 'model', None) is not None and g.model.assets:
        # an asset of the (shared) model is renamed after the graph was generated, then the graph is copied
        a0 = g.model.assets[case['rename_asset'] % len(g.model.assets)]
        a0.name = str(a0.name) + ' (renamed)'
        if count:
            res.count('class:model-asset-renamed-before-the-copy')
    try:
        if case.get('holder') and g.attackers:
            # the graph is part of a larger object which references one of its attackers (and a node) first
            holder = {'attacker': g.attackers[0], 'node': g.nodes[len(g.nodes) // 2] if g.nodes else None, 'graph': g}
            hc = copy.deepcopy(holder)
            c = hc['graph']
            if count:
                res.count('class:copied-inside-a-holder')
            if not any(hc['attacker'] is x for x in c.attackers):
                return ('deepcopy:holder-attacker-not-the-copys', 'the attacker copied along with the graph is not one of the copied graph\'s attackers')
            if hc['node'] is not None and not any(hc['node'] is x for x in c.nodes):
                return ('deepcopy:holder-node-not-the-copys', 'a node copied along with the graph is not one of the copied graph\'s nodes')
        else:
            c = copy.deepcopy(g)
    except Exception as exc:
        return ('deepcopy:raised-%s' % type(exc).__name__, 'copy.deepcopy raised %r' % (exc,))
    if count:
        res.count('copies-compared')
    renamed = case.get('rename_asset') is not None and getattr(g, 'model', None) is not None and bool(g.model.assets)
    f = compare_copy(g, c, res, count, renamed=renamed) or next_ids_agree(g, c, res, count)
    if f:
        return f
    k = world.add_graph(c, world.graphs[0]['built'])
    for step in range(20):
        side = rng.choice([0, k])
        other = k if side == 0 else 0
        before = agraph.snapshot(world.graphs[other]['g'])
        label = mutate(rng, world, side, res, count)
        after = agraph.snapshot(world.graphs[other]['g'])
        if count:
            res.count('mutations-applied')
            res.count('side:' + ('original' if side == 0 else 'copy'))
            res.count('mutation:' + label)
        if before != after:
            return ('deepcopy:mutation-visible-in-other:%s' % label.split(':')[0],
                    'mutation %d (%s) of the %s is visible in the %s at %s' % (
                        step, label, 'original' if side == 0 else 'copy', 'copy' if side == 0 else 'original', agraph.snap_diff(before, after)))
    return None


check_case = safe(_check_case)


def gen_case14(rng):
    r = rng.random()
    if r < 0.6:
        start = ['case', gen_case(rng, Cfg(max_depth=2, max_assets=5), MCfg(max_assets=6, attackers=0.8), corelang_share=0.06)]
    elif r < 0.9:
        start = ['desc', agraph.gen_desc(rng, rng.choice([3, 5, 8, 12, 25]))]
    else:
        return {'start': ['desc-refs', agraph.gen_desc(rng, rng.choice([2, 3, 5, 8, 12]))], 'history': [], 'seed': rng.randrange(10 ** 9), 'holder': False}
    hist = []
    if start[0] == 'case' and rng.random() < 0.8:
        hist.append(['attach'])
    for _ in range(rng.randint(0, 10)):
        op = C09.gen_history(rng, 1, False)[0]
        if op[0] in ('deepcopy', 'save-load', 'switch'):
            continue
        hist.append(op)
    if rng.random() < 0.3:
        hist.append(['remove_node', 10 ** 6 - 1])      # often the last node
    return {'start': start, 'history': hist, 'seed': rng.randrange(10 ** 9), 'holder': rng.random() < 0.3,
            'rename_asset': rng.randrange(1000) if rng.random() < 0.15 else None}


def run(rng, res, tier, shard, nshards):
    import maltoolbox.attackgraph.attackgraph as agmod
    from maltoolbox.attackgraph.node import AttackGraphNode
    from maltoolbox.attackgraph.attacker import Attacker
    reach = Reach()
    reach.add('AttackGraph.__deepcopy__', agmod.AttackGraph.__deepcopy__)
    reach.add('AttackGraphNode.__deepcopy__', AttackGraphNode.__deepcopy__)
    reach.add('Attacker.__deepcopy__', Attacker.__deepcopy__)
    reach.start()
    budget = Budget(CASES[tier] // nshards + 1, SECONDS[tier])
    while budget.more():
        case = gen_case14(rng)
        f = check_case(case, res)
        res.case(digest(case))
        if len(res.samples) < 3 and len(case['history']) >= 3:
            res.sample({'start': case['start'][0], 'history': case['history'][:10]})
        if f:
            res.violation(f[0], f[1], case)
    if budget.timed_out():
        res.notes['time-cap-hit'] = True
    reach.stop()
    res.reach = dict(reach.counts)


def replay(case, res):
    f = check_case(case, res)
    res.case(None)
    if f:
        res.violation(f[0], f[1], case)

"""C09 - attack-graph structure and lookup indexes stay consistent in any history."""
from __future__ import annotations

import copy
import itertools
import json
import os
import shutil
import tempfile

from ..mon import Reach
from ..result import Budget, digest, safe
from .. import agraph
from ..stream import gen_case, Built, TooExpensive, cpu_budget, CASE_CPU_S
from ..gen_lang import Cfg
from ..gen_model import MCfg

META = {
    'rule': ('histories of AttackGraph / Attacker / analyzer operations (generate, regenerate, add_node with fresh / explicit '
             'fresh / explicit used id, remove_node of plain / compromised / entry-point nodes, attach_attackers, add_attacker, '
             'remove_attacker, compromise / undo from either side, analysis, prune, deepcopy [history continues on copy and '
             'original], save / load [continues on the loaded graph]); after EVERY step, on every live graph, the invariants '
             'I1 (edges closed and mirrored, with multiplicity), I2 (get_node_by_id / get_node_by_full_name over present, '
             'removed and unused keys return exactly the present nodes, ids unique), I3 (attacker <-> node references stay '
             'inside the graph, get_attacker_by_id exact) are evaluated by identity; after regenerate_graph() the graph must '
             'be indistinguishable (serialisation, lookups, counters, ids handed out next) from a fresh AttackGraph(lang, model). '
             'Workloads: bounded-exhaustive sequences (length <= 3, thorough 4) of 17 operations on a hand-built 4-node graph; '
             'random histories (length <= 40) on graphs from generated languages, coreLang and random hand-built graphs; '
             'non-trivial = history with >= 1 removal and >= 1 lookup-relevant addition; distinct = digest(start, history)'
             '; added strata: model edited (link removed / put back / defense changed) before regenerate_graph and compared with a fresh graph; DEBUG log level; interference layer'
             "; round 7: entry points appended directly to an attacker's list; node objects that left the graph may only list attackers that list them"),
    'assumptions': ['invariants are evaluated at quiescent points (after the outermost public call returned)'],
    'shards': {'quick': 8, 'thorough': 16},
    'quotas': {
        'quick': {'steps-checked': 10000, 'op:remove_node': 2000, 'op:add_node': 1000, 'op:add_node-used-id:raised': 200,
                  'op:regenerate': 100, 'regenerate-compared-with-fresh': 100, 'op:deepcopy': 300, 'op:save-load': 100,
                  'op:prune': 300, 'op:attach_attackers': 100, 'op:remove_attacker': 200, 'class:remove-compromised-node': 100,
                  'class:remove-entry-point': 50, 'class:remove-then-lookup': 1000, 'exhaustive-histories': 1000,
                  'class:regenerate-after-mutation': 50},
        'thorough': {'steps-checked': 2000000, 'op:remove_node': 200000, 'op:regenerate': 10000, 'op:deepcopy': 30000,
                     'op:save-load': 10000, 'exhaustive-histories': 80000},
    },
}
CASES = {'quick': 1600, 'thorough': 120000}
SECONDS = {'quick': 300, 'thorough': 600}

BASE_DESC = {'nodes': [
    {'type': 'or', 'name': 'a', 'ttc': None, 'defense_status': None, 'existence_status': None, 'tags': [], 'extras': {}},
    {'type': 'and', 'name': 'b', 'ttc': None, 'defense_status': None, 'existence_status': None, 'tags': [], 'extras': {}},
    {'type': 'defense', 'name': 'd', 'ttc': None, 'defense_status': 1.0, 'existence_status': None, 'tags': [], 'extras': {}},
    {'type': 'or', 'name': 'c', 'ttc': None, 'defense_status': None, 'existence_status': None, 'tags': [], 'extras': {}}],
    'edges': [[0, 1], [2, 1], [1, 3], [0, 3], [0, 3], [3, 0]]}
F, L = 0, 63
TINY_OPS = [
    ['add_node', None], ['add_node', 'fresh'], ['add_node', 'used'], ['add_node', 0],
    ['remove_node', F], ['remove_node', L], ['remove_node', 1],
    ['add_attacker', 'A', None, [0], [0, 1]], ['add_attacker', 'A', 0, [], []],
    ['remove_attacker', F], ['compromise', F, 1], ['undo', F, F], ['node_compromise', 3, F],
    ['analyse'], ['prune'], ['deepcopy', 'continue-on-copy'], ['save-load', 'json'],
]


class World:
    """all live graphs of one history + everything ever seen (for stale-key probes)"""

    def __init__(self, res, count=True):
        self.graphs = []        # dict(graph, ever_nodes, ever_attackers, ever_names, built)
        self.cur = 0
        self.res, self.count_on = res, count
        self.removed_flag = False

    def count(self, name, n=1):
        if self.count_on:
            self.res.count(name, n)

    def add_graph(self, g, built=None):
        self.graphs.append({'g': g, 'nodes': list(g.nodes), 'atts': list(g.attackers),
                            'names': {n.full_name for n in g.nodes}, 'built': built})
        return len(self.graphs) - 1

    def note(self, w):
        w['nodes'].extend(n for n in w['g'].nodes if not any(n is x for x in w['nodes']))
        w['atts'].extend(a for a in w['g'].attackers if not any(a is x for x in w['atts']))
        w['names'].update(n.full_name for n in w['g'].nodes)
        if len(w['nodes']) > 400:
            w['nodes'] = w['nodes'][-400:]

    def check_all(self, where):
        for k, w in enumerate(self.graphs):
            self.note(w)
            f = agraph.check_invariants(w['g'], w['nodes'], w['atts'], w['names'])
            if f:
                return (f[0], '%s (graph #%d): %s' % (where, k, f[1]))
            f = agraph.check_compromise_symmetry(w['g'], w['atts'], ever_nodes=w['nodes'])
            if f:
                return (f[0], '%s (graph #%d): %s' % (where, k, f[1]))
        self.count('steps-checked')
        return None


def fresh_equivalent(w, world):
    """I4: regenerate_graph() must be indistinguishable from a fresh graph"""
    built = w['built']
    g = w['g']
    try:
        with cpu_budget(CASE_CPU_S):
            fresh = built.attack_graph(cpu_s=None)
    except TooExpensive:
        return None
    world.count('regenerate-compared-with-fresh')
    a, b = g._to_dict(), fresh._to_dict()
    if a != b:
        from .C03 import first_diff
        return ('attackgraph.regenerate:differs-from-fresh', 'regenerated graph serialises differently from a fresh one at %s' % first_diff(b, a))
    for attr in ('next_node_id', 'next_attacker_id'):
        if hasattr(g, attr) and getattr(g, attr) != getattr(fresh, attr):
            return ('attackgraph.regenerate:counters-not-reset', '%s is %r after regenerate_graph(), %r in a fresh graph' % (attr, getattr(g, attr), getattr(fresh, attr)))
    # the next id handed out must agree too (behavioural form of the counters)
    from maltoolbox.attackgraph import AttackGraphNode, Attacker
    n1, n2 = AttackGraphNode(type='or', name='probe'), AttackGraphNode(type='or', name='probe')
    g.add_node(n1)
    fresh.add_node(n2)
    same = n1.id == n2.id
    g.remove_node(n1)
    if not same:
        return ('attackgraph.regenerate:counters-not-reset', 'first node added after regenerate_graph() gets id %r, in a fresh graph %r' % (n1.id, n2.id))
    if len(g.attackers) != 0:
        return ('attackgraph.regenerate:attackers-kept', 'regenerated graph still has %d attackers' % len(g.attackers))
    return None


def apply(world, op):
    """returns (key, what) or None"""
    from maltoolbox.attackgraph import AttackGraph, AttackGraphNode, Attacker
    from maltoolbox.attackgraph.analyzers.apriori import calculate_viability_and_necessity, prune_unviable_and_unnecessary_nodes
    w = world.graphs[world.cur % len(world.graphs)]
    g = w['g']
    kind = op[0]
    nodes, atts = list(g.nodes), list(g.attackers)

    def node(i):
        return nodes[i % len(nodes)] if nodes else None

    def att(i):
        return atts[i % len(atts)] if atts else None
    try:
        if kind == 'switch':
            world.cur = op[1]
            return None
        if kind == 'add_node':
            n = AttackGraphNode(type='or', name='x%d' % len(w['nodes']))
            how = op[1]
            if how is None:
                g.add_node(n)
                world.count('op:add_node')
            else:
                used = {x.id for x in nodes}
                if how == 'fresh':
                    nid = (max(used) + 3) if used else 5
                elif how == 'used':
                    if not used:
                        return None
                    nid = sorted(used)[len(used) // 2]
                else:
                    nid = how
                if nid in used:
                    before = agraph.snapshot(g)
                    try:
                        g.add_node(n, node_id=nid)
                    except Exception:
                        world.count('op:add_node-used-id:raised')
                        if agraph.snapshot(g) != before:
                            return ('attackgraph.add_node:state-changed-by-raising-call', 'add_node(node_id=%r in use) raised but changed the graph' % nid)
                        return None
                    world.count('op:add_node-used-id:accepted')
                else:
                    g.add_node(n, node_id=nid)
                    world.count('op:add_node')
                    if n.id != nid:
                        return ('attackgraph.add_node:explicit-id-ignored', 'add_node(node_id=%r) gave id %r' % (nid, n.id))
            if nodes and n in g.nodes and op[-1] != 'nolink':
                p = nodes[len(nodes) // 2]
                p.children.append(n)
                n.parents.append(p)
        elif kind == 'remove_node':
            n = node(op[1])
            if n is None:
                return None
            if n.is_compromised():
                world.count('class:remove-compromised-node')
            if any(n is e for a in atts for e in a.entry_points):
                world.count('class:remove-entry-point')
            g.remove_node(n)
            world.count('op:remove_node')
            world.count('class:remove-then-lookup')
            world.removed_flag = True
        elif kind == 'add_attacker':
            a = Attacker(name=op[1], entry_points=[], reached_attack_steps=[])
            ids = [x.id for x in nodes]
            eps = [ids[i % len(ids)] for i in op[3]] if ids else []
            reached = [ids[i % len(ids)] for i in op[4]] if ids else []
            aid = op[2]
            if aid is not None and aid in {x.id for x in atts}:
                before = agraph.snapshot(g)
                try:
                    g.add_attacker(a, attacker_id=aid, entry_points=eps, reached_attack_steps=reached)
                except Exception:
                    world.count('op:add_attacker-used-id:raised')
                    if agraph.snapshot(g) != before:
                        return ('attackgraph.add_attacker:state-changed-by-raising-call',
                                'add_attacker(attacker_id=%r in use) raised but changed the graph (%s)' % (aid, agraph.snap_diff(before, agraph.snapshot(g))))
                    return None
                world.count('op:add_attacker-used-id:accepted')
            else:
                if aid is None and not reached and eps:
                    g.add_attacker(a, entry_points=eps)          # reached steps left to the default
                    world.count('class:add_attacker-default-reached')
                elif aid is None and not reached and not eps:
                    g.add_attacker(a)                              # everything left to the defaults
                    world.count('class:add_attacker-all-defaults')
                elif aid is not None:
                    g.add_attacker(a, attacker_id=aid, entry_points=eps, reached_attack_steps=reached)
                    if a.id != aid:
                        return ('ids:explicit-%s-ignored' % ('zero' if aid == 0 else 'id'), 'add_attacker(attacker_id=%r) gave id %r' % (aid, a.id))
                else:
                    g.add_attacker(a, entry_points=eps, reached_attack_steps=reached)
                world.count('op:add_attacker')
            if kind == 'add_attacker' and any(x is a for x in g.attackers):
                want_r = {i for i in reached}
                got_r = {n.id for n in a.reached_attack_steps}
                want_e = set(eps)
                got_e = {n.id for n in a.entry_points}
                if got_r != want_r or got_e != want_e:
                    return ('attackgraph.add_attacker:wrong-initial-steps',
                            'add_attacker(entry_points=%s, reached_attack_steps=%s) gave entry points %s and reached steps %s' % (
                                sorted(want_e), sorted(want_r), sorted(got_e), sorted(got_r)))
        elif kind == 'remove_attacker':
            a = att(op[1])
            if a is None:
                return None
            g.remove_attacker(a)
            world.count('op:remove_attacker')
        elif kind in ('compromise', 'undo', 'node_compromise', 'node_undo'):
            a = att(op[1] if kind in ('compromise', 'undo') else op[2])
            n = node(op[2] if kind in ('compromise', 'undo') else op[1])
            if a is None or n is None:
                return None
            {'compromise': lambda: a.compromise(n), 'undo': lambda: a.undo_compromise(n),
             'node_compromise': lambda: n.compromise(a), 'node_undo': lambda: n.undo_compromise(a)}[kind]()
            world.count('op:' + kind)
        elif kind == 'entry_point':
            # the entry point list is a public field that callers extend (attach_attackers itself assigns it)
            a, n = att(op[1]), node(op[2])
            if a is None or n is None:
                return None
            if not any(x is n for x in a.entry_points):
                a.entry_points.append(n)
            world.count('op:entry-point-appended-directly')
        elif kind == 'attach':
            if g.model is None:
                return None
            g.attach_attackers()
            world.count('op:attach_attackers')
        elif kind == 'analyse':
            if all(n.type in ('or', 'and') or n.defense_status is not None or n.existence_status is not None for n in nodes):
                calculate_viability_and_necessity(g)
                world.count('op:analyse')
        elif kind == 'prune':
            prune_unviable_and_unnecessary_nodes(g)
            world.count('op:prune')
            world.removed_flag = True
        elif kind == 'edit-model':
            # the model the graph was generated from is edited through its API (a link removed / put back, a defense
            # value changed); the graph is then regenerated and must equal a fresh graph of the edited model
            if w['built'] is None or g.model is None:
                return None
            import random as _random
            r2 = _random.Random(op[1])
            model = w['built'].model
            stash = w.setdefault('removed_links', [])
            did = None
            if model.associations and r2.random() < 0.6:
                a0 = model.associations[r2.randrange(len(model.associations))]
                model.remove_association(a0)
                stash.append(a0)
                did = 'link-removed'
            elif stash:
                a0 = stash.pop()
                try:
                    model.add_association(a0)
                    did = 'link-put-back'
                except Exception:
                    did = None
            if did is None and model.assets:
                a1 = model.assets[r2.randrange(len(model.assets))]
                ds = sorted(w['built'].lang.defenses(str(a1.type)))
                if ds:
                    setattr(a1, ds[0], r2.choice([0.0, 1.0, 0.5]))
                    did = 'defense-changed'
            if did is None:
                return None
            world.count('class:model-edited-then-regenerated:' + did)
            with cpu_budget(CASE_CPU_S):
                g.regenerate_graph()
            w['nodes'] = []
            f = fresh_equivalent(w, world)
            if f:
                return (f[0], 'after the model was edited (%s): %s' % (did, f[1]))
        elif kind == 'regenerate':
            if w['built'] is None:
                return None
            if world.removed_flag or len(nodes) != 0:
                world.count('class:regenerate-after-mutation')
            with cpu_budget(CASE_CPU_S):
                g.regenerate_graph()
            world.count('op:regenerate')
            w['nodes'] = [x for x in w['nodes']][-200:]
            f = fresh_equivalent(w, world)
            if f:
                return f
        elif kind == 'serialise':
            # serialising is an observation: it must not change anything, now or later
            before = agraph.snapshot(g)
            g._to_dict()
            if agraph.snapshot(g) != before:
                return ('attackgraph.to_dict:changes-graph', '_to_dict() changed the graph: %s' % agraph.snap_diff(before, agraph.snapshot(g)))
            world.count('op:serialise')
        elif kind == 'deepcopy':
            c = copy.deepcopy(g)
            world.count('op:deepcopy')
            k = world.add_graph(c, w['built'])
            if op[1] == 'continue-on-copy':
                world.cur = k
        elif kind == 'save-load':
            d = tempfile.mkdtemp(prefix='c09-', dir=os.getcwd())
            try:
                path = os.path.join(d, 'g.' + op[1])
                g.save_to_file(path)
                # attackers sharing a name cannot be told apart in the file (C10's business)
                g2 = AttackGraph.load_from_file(path, g.model)
            finally:
                shutil.rmtree(d, ignore_errors=True)
            world.count('op:save-load')
            k = world.add_graph(g2, None)
            world.cur = k
    except TooExpensive:
        world.count('skipped:too-expensive-op')
        return ('skip', 'too expensive')
    except Exception as exc:
        import traceback
        tb = traceback.extract_tb(exc.__traceback__)
        where = next((f for f in reversed(tb) if '/maltoolbox/' in f.filename), tb[-1])
        return ('attackgraph.%s:raised-%s' % (kind, type(exc).__name__),
                'operation %s raised %r at %s:%d' % (json.dumps(op), exc, os.path.basename(where.filename), where.lineno))
    return None


def run_history(start, history, res, count=True):
    """start: ('desc', desc) | ('case', case); returns (key, what) or None"""
    world = World(res, count)
    if start[0] == 'desc':
        g, objs = agraph.build(start[1])
        world.add_graph(g, None)
    else:
        try:
            built = Built(start[1], attackers=True, explicit_ids=True)
            g = built.attack_graph()
        except TooExpensive:
            if count:
                res.count('skipped:too-expensive')
            return None
        except Exception as exc:
            return ('build:raised-%s' % type(exc).__name__, 'building a generated case raised %r' % (exc,))
        world.add_graph(g, built)
        world.count('op:generate')
    f = world.check_all('after construction')
    if f:
        return f
    for i, op in enumerate(history):
        f = apply(world, op)
        if f and f[0] == 'skip':
            return None
        if f:
            return (f[0], 'step %d: %s' % (i, f[1]))
        f = world.check_all('after step %d %s' % (i, json.dumps(op)))
        if f:
            return f
    return None


run_history_safe = safe(run_history)


def gen_history(rng, n, generated):
    ops = []
    for _ in range(n):
        r = rng.random()
        if r < 0.16:
            ops.append(['add_node', rng.choice([None, None, 'fresh', 'used', 0, 7])])
        elif r < 0.34:
            ops.append(['remove_node', rng.randrange(1000)])
        elif r < 0.42:
            ops.append(['add_attacker', rng.choice(['A', 'B', 'A']), rng.choice([None, None, 0, 1, 5]),
                        [rng.randrange(100) for _ in range(rng.randint(0, 2))], [rng.randrange(100) for _ in range(rng.randint(0, 4))]])
        elif r < 0.48:
            ops.append(['remove_attacker', rng.randrange(10)])
        elif r < 0.66:
            ops.append([rng.choice(['compromise', 'compromise', 'undo', 'node_compromise', 'node_undo', 'entry_point']), rng.randrange(1000), rng.randrange(1000)])
        elif r < 0.70 and generated:
            ops.append(['attach'])
        elif r < 0.76:
            ops.append(['analyse'])
        elif r < 0.82:
            ops.append(['prune'])
        elif r < 0.85 and generated:
            ops.append(['regenerate'])
        elif r < 0.87 and generated:
            ops.append(['edit-model', rng.randrange(10 ** 9)])
        elif r < 0.93:
            ops.append(['deepcopy', rng.choice(['continue-on-copy', 'continue-on-original'])])
        elif r < 0.955:
            ops.append(['save-load', rng.choice(['json', 'yml'])])
        elif r < 0.975:
            ops.append(['serialise'])
        else:
            ops.append(['switch', rng.randrange(4)])
    return ops


def nontrivial(history):
    kinds = {op[0] for op in history}
    return bool(kinds & {'remove_node', 'prune', 'remove_attacker', 'regenerate'}) and bool(kinds & {'add_node', 'add_attacker', 'compromise', 'deepcopy'})


def shrink(start, history, key):
    from ..result import Result
    h = list(history)
    i = len(h) - 1
    runs = 0
    while i >= 0 and runs < 60:
        h2 = h[:i] + h[i + 1:]
        f = run_history_safe(start, h2, Result('C09', 's', 0, 0), count=False)
        runs += 1
        if f and f[0] == key:
            h = h2
        i -= 1
    return h


def run(rng, res, tier, shard, nshards):
    import maltoolbox.attackgraph.attackgraph as agmod
    AG = agmod.AttackGraph
    reach = Reach()
    for fn in ('add_node', 'remove_node', 'regenerate_graph', 'add_attacker', 'remove_attacker', '__deepcopy__', 'attach_attackers'):
        reach.add('AttackGraph.' + fn, getattr(AG, fn, None))
    reach.add('AttackGraph._from_dict', AG._from_dict.__func__)
    reach.start()
    seen = set()
    # (1) bounded-exhaustive on the 4-node graph
    depth = 3 if tier == 'quick' else 4
    n = 0
    for k in range(1, depth + 1):
        for combo in itertools.product(range(len(TINY_OPS)), repeat=k):
            n += 1
            if n % nshards != shard:
                continue
            hist = [TINY_OPS[i] for i in combo]
            f = run_history_safe(('desc', BASE_DESC), hist, res)
            res.count('exhaustive-histories')
            res.case(digest(['x', combo]) if nontrivial(hist) else None)
            if f:
                if f[0] not in seen:
                    seen.add(f[0])
                    res.violation(f[0], f[1], {'start': ['desc', BASE_DESC], 'history': hist})
                else:
                    res.viol_counts[f[0]] = res.viol_counts.get(f[0], 0) + 1
    res.notes['exhaustive'] = False
    res.notes['exhaustive_part'] = 'all sequences up to length %d of %d operations on a 4-node graph (%d histories over all shards)' % (depth, len(TINY_OPS), n)
    # (2) random histories
    budget = Budget(CASES[tier] // nshards + 1, SECONDS[tier])
    while budget.more():
        r = rng.random()
        if r < 0.55:
            case = gen_case(rng, Cfg(max_depth=2, max_assets=5), MCfg(max_assets=6, attackers=0.8), corelang_share=0.06)
            start = ('case', case)
        else:
            desc = agraph.gen_desc(rng, rng.choice([3, 5, 8, 12, 20]))
            if rng.random() < 0.4 and desc['edges']:
                desc['edges'].append(list(rng.choice(desc['edges'])))     # a double edge
            start = ('desc', desc)
        hist = gen_history(rng, rng.randint(1, 40), start[0] == 'case')
        f = run_history_safe(start, hist, res)
        res.case(digest([start, hist]) if nontrivial(hist) else None)
        if len(res.samples) < 3 and nontrivial(hist):
            res.sample({'start': start[0], 'history': hist[:12]})
        if f:
            small = shrink(start, hist, f[0]) if (f[0] not in res.viol_counts and len(res.viol_counts) < 4) else hist
            res.violation(f[0], f[1], {'start': list(start), 'history': small, 'original_history': hist})
    if budget.timed_out():
        res.notes['time-cap-hit'] = True
    reach.stop()
    res.reach = dict(reach.counts)
    if tier == 'thorough' and shard == 0:
        suite_under_invariants(res)


# tests that wire children / parents by hand on nodes that are only partly added: the invariants
# concern what the library's operations produce (witnesses read: tests/attackgraph/test_node.py:45-52,
# tests/attackgraph/test_query.py:47-49)
HANDWIRED_TESTS = ('tests/attackgraph/test_node.py::test_attackgraphnode',
                   'tests/attackgraph/test_query.py::test_query_is_node_traversable_by_attacker')


def suite_under_invariants(res):
    """supplementary workload: the repository's own test-suite executed with I1-I3 and the compromise symmetry
    installed on every public AttackGraph / analyzer operation (mtv/pytest_inv.py)"""
    import json
    import subprocess
    import tempfile
    from .. import env
    d = tempfile.mkdtemp(prefix='c09-suite-', dir=os.getcwd())
    out = os.path.join(d, 'inv.json')
    e = dict(os.environ)
    e['MTV_INV_OUT'] = out
    e['PYTHONPATH'] = env.VERIF_DIR + os.pathsep + env.REPO
    try:
        subprocess.run(['/venv/bin/python', '-m', 'pytest', os.path.join(env.REPO, 'tests'), '-p', 'mtv.pytest_inv', '-q',
                        '-p', 'no:cacheprovider', '-x', '--timeout=600'], cwd=d, env=e, capture_output=True, timeout=900)
        with open(out) as f:
            data = json.load(f)
    except Exception as exc:
        res.notes['suite-under-invariants'] = 'not run: %r' % (exc,)
        shutil.rmtree(d, ignore_errors=True)
        return
    shutil.rmtree(d, ignore_errors=True)
    res.count('suite-under-invariants:calls-checked', data['checked'])
    seen = set()
    for v in data['violations']:
        if v['test'] in HANDWIRED_TESTS:
            res.count('suite-under-invariants:firings-in-handwired-tests')
            continue
        if v['key'] in seen:
            continue
        seen.add(v['key'])
        res.violation('suite-under-invariants:' + v['key'], 'in %s after %s: %s' % (v['test'], v['after'], v['what']),
                      {'start': ['suite', v['test']], 'history': []})


def replay(case, res):
    if case['start'][0] == 'suite':
        suite_under_invariants(res)
        res.case(None)
        return
    start = tuple(case['start'])
    for h in (case['history'], case.get('original_history')):
        if h is None:
            continue
        f = run_history_safe(start, h, res)
        res.case(None)
        if f:
            res.violation(f[0], f[1], case)
            return

"""C16 - graph generation is deterministic and does not disturb its inputs."""
from __future__ import annotations

import copy
import io
import json
import os
import shutil
import subprocess
import sys
import tempfile
import zipfile

from ..mon import Reach
from ..ref_sem import Lang, AModel
from ..result import Budget, digest
from ..stream import TooExpensive, gen_case, Built
from ..gen_lang import Cfg
from ..gen_model import MCfg, build_real
from ..malprint import print_spec

META = {
    'rule': ('random (language, model) pairs: (1) in-process: the attack graph is generated twice, serialisations must '
             'be identical, the model serialisation and the language specification must be unchanged by generation, '
             'attach_attackers and analysis, the two graphs share no node; (2) child processes with PYTHONHASHSEED in '
             '{0,1,2,3,random} build the graph by several routes (direct API, files, create_attack_graph wrapper from '
             '.mar and from printed .mal, model as json/yml, wrapper flags off vs bare generation and wrapper defaults '
             'vs generation+attach+analysis); all SHA-256 digests of the canonical serialisation per case and per '
             'kind (bare / analysed) must be one; non-trivial = graph has >= 2 nodes and >= 1 edge; '
             'distinct = digest(spec, model)'
             '; added strata: all four switch combinations of create_attack_graph by keyword and by position, attach on the older of two graphs of one model, by-hand attacker registrations before a later generation'
             '; round 7: the analysed graph object regenerates twice and is attached / analysed again (must serialise like the constructor route); language graph built through four routes'),
    'assumptions': ['the MAL printer emits the language the spec denotes (C04)',
                    'like-for-like comparison: routes that load the model from a file rely on save/load preserving the model (C07)'],
    'shards': {'quick': 8, 'thorough': 16},
    'quotas': {
        'quick': {'inprocess-pairs': 100, 'child-processes': 5, 'digests-compared': 500, 'route:wrapper-mal-json/analysed': 10,
                  'route:wrapper-mar-yml/bare': 10, 'inputs-unchanged-checks': 100,
                  'generation-after-edits-compared': 30, 'class:hostile-attackers': 30},
        'thorough': {'inprocess-pairs': 10000, 'child-processes': 80, 'digests-compared': 20000,
                     'route:wrapper-mal-json/analysed': 1000, 'route:wrapper-mar-yml/bare': 1000,
                     'inputs-unchanged-checks': 10000},
    },
    'watchdog_s': {'quick': 900, 'thorough': 4 * 3600},
}
CASES_INPROC = {'quick': 480, 'thorough': 40000}
CASES_CHILD = {'quick': 32, 'thorough': 1600}
SECONDS = {'quick': 300, 'thorough': 480}
HASHSEEDS = ['0', '1', '2', '3', 'random']


def canon(d):
    return json.dumps(d, sort_keys=True, default=str, separators=(',', ':'))


def inprocess(case, res, count=True):
    from maltoolbox.attackgraph.analyzers.apriori import calculate_viability_and_necessity
    try:
        built = Built(case, attackers=True, explicit_ids=True)
    except Exception as exc:
        return ('build:raised-%s' % type(exc).__name__, 'building a valid case raised %r' % (exc,))
    model_before = canon(built.model._to_dict())
    spec_before = copy.deepcopy(built.lang_graph._lang_spec)
    try:
        g1 = built.attack_graph()
        d1 = canon(g1._to_dict())
        g2 = built.attack_graph()
        d2 = canon(g2._to_dict())
    except TooExpensive:
        res.count('skipped:too-expensive')
        return None
    except Exception as exc:
        return ('attackgraph.generate:raised-%s' % type(exc).__name__, 'generation raised %r' % (exc,))
    if count:
        res.count('inprocess-pairs')
    if d1 != d2:
        return ('determinism:same-process-differs', 'two generations in one process give different serialised graphs')
    if {id(n) for n in g1.nodes} & {id(n) for n in g2.nodes}:
        return ('determinism:node-shared-by-two-graphs', 'two graphs built from the same model share a node object')
    if any(a is b for a in g1.nodes for b in g2.nodes):
        return ('determinism:node-shared-by-two-graphs', 'shared node')

    def unchanged(after_what):
        if count:
            res.count('inputs-unchanged-checks')
        if canon(built.model._to_dict()) != model_before:
            return ('inputs:model-changed', 'Model._to_dict() changed by %s' % after_what)
        if built.lang_graph._lang_spec != spec_before or built.lang_graph._lang_spec != built.lang.spec:
            return ('inputs:lang-spec-changed', 'language specification changed by %s' % after_what)
        return None
    f = unchanged('generation')
    if f:
        return f
    try:
        g1.attach_attackers()
        calculate_viability_and_necessity(g1)
    except Exception as exc:
        return ('analysis:raised-%s' % type(exc).__name__, 'attach/analysis raised %r' % (exc,))
    f = unchanged('attach_attackers + analysis')
    if f:
        return f
    # the other graph of the same model (generated later) is untouched, and the first graph refers to its own nodes only
    if canon(g2._to_dict()) != d2:
        return ('determinism:attach-or-analysis-changes-another-graph', 'attach_attackers / analysis on one graph changed the serialised form of another graph generated from the same model')
    own = {id(n) for n in g1.nodes}
    for t in g1.attackers:
        for n in list(t.entry_points) + list(t.reached_attack_steps):
            if id(n) not in own:
                return ('determinism:node-shared-by-two-graphs', 'after attach_attackers the first graph\'s attacker %r refers to a node that is not one of its nodes' % t.name)
    for n in g2.nodes:
        if n.compromised_by:
            return ('determinism:node-shared-by-two-graphs', 'a node of the second graph is compromised after attach_attackers on the first')
    dA = canon(g1._to_dict())
    # attackers are registered by hand on the other graph, in the call forms that leave arguments to their defaults
    if g2.nodes:
        from maltoolbox.attackgraph import Attacker
        try:
            g2.add_attacker(Attacker(name='by hand 1', entry_points=[], reached_attack_steps=[]), entry_points=[g2.nodes[0].id])
            g2.add_attacker(Attacker(name='by hand 2', entry_points=[], reached_attack_steps=[]), reached_attack_steps=[g2.nodes[-1].id])
            g2.add_attacker(Attacker(name='by hand 3', entry_points=[], reached_attack_steps=[]))
        except Exception as exc:
            return ('analysis:raised-%s' % type(exc).__name__, 'add_attacker raised %r' % (exc,))
        if count:
            res.count('class:attackers-registered-by-hand-on-another-graph')
    # a fresh generation after analysing another graph is still the same, bare and with attackers and analysis
    try:
        g3 = built.attack_graph()
    except TooExpensive:
        res.count('skipped:too-expensive')
        return None
    if canon(g3._to_dict()) != d2:
        return ('determinism:generation-after-analysis-differs', 'a graph generated after analysing another one differs')
    try:
        g3.attach_attackers()
        calculate_viability_and_necessity(g3)
    except Exception as exc:
        return ('analysis:raised-%s' % type(exc).__name__, 'attach/analysis of a later graph raised %r' % (exc,))
    if canon(g3._to_dict()) != dA:
        return ('determinism:same-process-differs', 'generate + attach_attackers + analysis gives another serialised graph the second time in one process')
    # the third route to the same graph: the analysed graph object generates again (regenerate_graph), once and a
    # second time, and is attached and analysed again
    try:
        for _ in range(2):
            g1.regenerate_graph()
            if canon(g1._to_dict()) != d2:
                return ('determinism:regenerated-differs', 'regenerate_graph() on a graph that had attackers and analysis gives another serialised graph than the constructor')
            g1.attach_attackers()
            calculate_viability_and_necessity(g1)
            if canon(g1._to_dict()) != dA:
                return ('determinism:regenerated-differs', 'regenerate_graph() + attach_attackers + analysis gives another serialised graph than constructor + attach_attackers + analysis')
    except Exception as exc:
        return ('analysis:raised-%s' % type(exc).__name__, 'regenerate / attach / analysis raised %r' % (exc,))
    if count:
        res.count('class:regenerated-attached-analysed-twice')
    return None


def _after_edits(rng, case, res, history=None):
    """the graph generated from a Model after it was edited (and after it already served a generation) must be
    the graph generated from a freshly built Model with the same content"""
    from maltoolbox.attackgraph import AttackGraph
    from maltoolbox.model import Model
    from ..shadow import Lockstep, gen_history, Divergence
    from ..stream import cpu_budget, CASE_CPU_S
    lang = Lang(case['spec'])
    if history is None:
        h0 = gen_history(rng, lang, rng.randint(6, 25), invalid=0.0, attackers=False, names=['srv', 'db', 'n', 'x', None])
        # more multi-member fields, so that an asset can leave an association that survives
        for _ in range(rng.randint(1, 5)):
            h0.append(['add_assoc', rng.randrange(64), [['live', rng.randrange(64)], ['live', rng.randrange(64)]],
                       [['live', rng.randrange(64)], ['live', rng.randrange(64)]][:rng.randint(1, 2)]])
        h1 = gen_history(rng, lang, rng.randint(1, 8), invalid=0.0, attackers=False, names=['y', 'z', None]) if rng.random() < 0.5 else []
        for _ in range(rng.randint(1, 4)):
            h1.insert(rng.randrange(len(h1) + 1), ['remove_from_assoc', ['live', rng.randrange(64)], ['live', rng.randrange(64)]])
        history = [h0, h1]
    h = history
    try:
        ls = Lockstep(case['spec'])
        ls.check_every_step = False
        for op in h[0]:
            ls.apply(op)
        with cpu_budget(CASE_CPU_S):
            AttackGraph(ls.lang_graph, ls.model)           # a first generation (fills whatever is cached)
        for op in h[1]:
            ls.apply(op)
        with cpu_budget(CASE_CPU_S):
            g2 = AttackGraph(ls.lang_graph, ls.model)
        am = ls.abstract_model()
        fresh, _ = build_real(lang, am, ls.factory, Model, None, explicit_ids=True)
        with cpu_budget(CASE_CPU_S):
            g3 = AttackGraph(ls.lang_graph, fresh)
    except Divergence:
        return None
    except TooExpensive:
        res.count('skipped:too-expensive')
        return None
    res.count('generation-after-edits-compared')
    a, b = canon(g2._to_dict()), canon(g3._to_dict())
    if a != b:
        from .C03 import first_diff
        return ('determinism:generation-after-model-edits-differs',
                'the graph generated from an edited Model differs from the graph of a freshly built equal Model at %s' % (
                    first_diff(json.loads(b), json.loads(a))), h)
    return None


def after_edits(rng, case, res, history=None):
    try:
        return _after_edits(rng, case, res, history)
    except Exception as exc:
        return ('unexpected:raised-%s' % type(exc).__name__, 'generation after edits raised %r' % (exc,), history)


def nontrivial_case(case):
    lang = Lang(case['spec'])
    n = sum(len(lang.steps(a['type'])) for a in case['amodel']['assets'])
    return n >= 2 and any(s['reaches'] for a in case['amodel']['assets'] for s in lang.steps(a['type']).values())


def write_case_files(case, base):
    """<base>.case.json, .mar, .mal, .model.json, .model.yml (model saved by the toolbox itself)"""
    from maltoolbox.language import LanguageGraph, LanguageClassesFactory
    from maltoolbox.model import Model, AttackerAttachment
    with open(base + '.case.json', 'w') as f:
        json.dump(case, f)
    with zipfile.ZipFile(base + '.mar', 'w') as z:
        z.writestr('langspec.json', json.dumps(case['spec']))
    with open(base + '.mal', 'w', encoding='utf-8') as f:
        f.write(print_spec(case['spec']))
    lang = Lang(case['spec'])
    lg = LanguageGraph(copy.deepcopy(case['spec']))
    fac = LanguageClassesFactory(lg)
    am = AModel.from_json(case['amodel'])
    model, _ = build_real(lang, am, fac, Model, AttackerAttachment, explicit_ids=True)
    # attacker ids were assigned by the model: keep them in the case for the direct route
    case['amodel'] = am.to_json()
    with open(base + '.case.json', 'w') as f:
        json.dump(case, f)
    model.save_to_file(base + '.model.json')
    model.save_to_file(base + '.model.yml')


def run_children(case_dir, res):
    from ..runner import shard_env, PY
    outs = {}
    for hs in HASHSEEDS:
        env = shard_env(hs)
        try:
            p = subprocess.run([PY, '-m', 'mtv.c16_child', case_dir], env=env, cwd=case_dir, capture_output=True,
                               text=True, timeout=1800)
        except subprocess.TimeoutExpired:
            res.inconc('child process watchdog fired (hash seed %s)' % hs)
            continue
        res.count('child-processes')
        if p.returncode != 0:
            res.inconc('child process failed (hash seed %s): %s' % (hs, p.stderr[-400:].replace('\n', ' | ')))
            continue
        try:
            outs[hs] = json.loads(p.stdout)
        except ValueError:
            res.inconc('child output not JSON (hash seed %s): %s' % (hs, p.stdout[-200:]))
    return outs


def compare_children(outs, cases, res):
    """group digests per case and per kind (bare / analysed)"""
    table = {}
    for hs, rows in outs.items():
        for r in rows:
            kind = r['route'].split('/')[1]
            # YAML files list assets sorted by id, JSON files in model order:
            # the two files describe the same model with the assets in a
            # different order unless the ids are ascending; node ids follow the
            # asset order, so compare like with like
            ids = [a['id'] for a in cases[r['case']]['amodel']['assets']]
            fmt = 'any' if ids == sorted(ids) else ('yml' if 'yml' in r['route'] else 'json')
            table.setdefault((r['case'], kind + '/' + fmt), []).append((hs, r))
    for (cname, kind), rows in sorted(table.items()):
        errs = [(hs, r) for hs, r in rows if 'error' in r]
        oks = [(hs, r) for hs, r in rows if 'digest' in r]
        for hs, r in rows:
            res.count('route:' + r['route'])
        res.count('digests-compared', len(oks))
        case = cases[cname]
        if errs:
            hs, r = errs[0]
            res.violation('route:raised:%s' % r['route'].split('/')[0].rstrip('-jsonyml').rstrip('-'),
                          'route %s (hash seed %s) failed: %s' % (r['route'], hs, r['error']),
                          {'case': case, 'rows': rows[:8]})
            continue
        digs = {}
        for hs, r in oks:
            digs.setdefault(r['digest'], []).append((hs, r['route']))
        if len(digs) > 1:
            # classify: do hash seeds disagree for the same route, or routes among themselves?
            by_route = {}
            for hs, r in oks:
                by_route.setdefault(r['route'], set()).add(r['digest'])
            if any(len(v) > 1 for v in by_route.values()):
                key = 'determinism:differs-across-hash-seeds'
            else:
                names = sorted(by_route)
                ref = by_route[names[0]]
                odd = [n for n in names if by_route[n] != ref]
                key = 'determinism:routes-differ:%s' % ('wrapper' if all('wrapper' in n for n in odd) or all('wrapper' in n for n in names if n not in odd) else 'files-vs-direct')
            res.violation(key, '%s/%s: %d distinct digests: %s' % (cname, kind, len(digs), {k[:12]: v[:4] for k, v in digs.items()}),
                          {'case': case})


def run(rng, res, tier, shard, nshards):
    import maltoolbox.attackgraph.attackgraph as agmod
    import maltoolbox.wrappers as wr
    reach = Reach()
    reach.add('AttackGraph._generate_graph', agmod.AttackGraph._generate_graph)
    reach.start()
    # (1) in-process
    budget = Budget(CASES_INPROC[tier] // nshards + 1, SECONDS[tier])
    while budget.more():
        case = gen_case(rng, Cfg(), MCfg(attackers=0.7), corelang_share=0.03)
        if rng.random() < 0.3:
            from .C11 import hostile_attackers
            case = hostile_attackers(rng, case)       # overlapping entry points, steps the asset type does not have
            res.count('class:hostile-attackers')
        if case['source'] == 'generated' and rng.random() < 0.4:
            first = after_edits(rng, case, res)
            res.case(digest([case['spec'], 'edits', res.evaluations]))
            if first:
                res.violation(first[0], first[1], {'case': case, 'edits': first[2]})
            continue
        first = inprocess(case, res)
        res.case(digest([case['spec'], case['amodel']]) if nontrivial_case(case) else None)
        if first:
            res.violation(first[0], first[1], {'case': case})
    reach.stop()
    res.reach = dict(reach.counts)
    # (2) fresh processes, hash seeds, routes
    n = CASES_CHILD[tier] // nshards + 1
    case_dir = tempfile.mkdtemp(prefix='c16-', dir=os.getcwd())
    cases = {}
    try:
        i = 0
        while len(cases) < n and i < 4 * n:
            i += 1
            case = gen_case(rng, Cfg(), MCfg(attackers=0.8, hostile_names=0.1), corelang_share=0.05)
            if not nontrivial_case(case):
                continue
            try:
                Built(case, attackers=False).attack_graph(cpu_s=1.0)
            except TooExpensive:
                res.count('skipped:too-expensive')
                continue
            except Exception:
                pass
            name = 'c%03d' % len(cases)
            try:
                write_case_files(case, os.path.join(case_dir, name))
            except Exception as exc:
                res.violation('build:raised-%s' % type(exc).__name__, 'writing case files raised %r' % (exc,), {'case': case})
                continue
            cases[name + '.case.json'] = case
            res.case(digest([case['spec'], case['amodel'], 'child']))
        outs = run_children(case_dir, res)
        if len(outs) < 2:
            res.inconc('fewer than two child processes produced output')
        compare_children(outs, cases, res)
        if cases:
            nm = sorted(cases)[0]
            res.sample({'case': nm, 'assets': [(a['id'], a['name'], a['type']) for a in cases[nm]['amodel']['assets']],
                        'routes': sorted({r['route'] for rows in outs.values() for r in rows}),
                        'hash_seeds': sorted(outs), 'digest': next((r.get('digest') for rows in outs.values() for r in rows if r['case'] == nm), None)})
    finally:
        shutil.rmtree(case_dir, ignore_errors=True)
    res.notes['hash_seeds'] = HASHSEEDS


def replay(case, res):
    c = case['case']
    if 'edits' in case:
        import random
        f = after_edits(random.Random(0), c, res, case['edits'])
        res.case(None)
        if f:
            res.violation(f[0], f[1], case)
        return
    first = inprocess(c, res)
    res.case(None)
    if first:
        res.violation(first[0], first[1], case)
        return
    case_dir = tempfile.mkdtemp(prefix='c16r-', dir=os.getcwd())
    try:
        write_case_files(c, os.path.join(case_dir, 'c000'))
        outs = run_children(case_dir, res)
        compare_children(outs, {'c000.case.json': c}, res)
    finally:
        shutil.rmtree(case_dir, ignore_errors=True)

"""C19 - Neo4j export is isomorphic to what is exported, and import inverts it."""
from __future__ import annotations

import copy

from ..mon import Reach
from ..ref_sem import Lang, AModel
from ..result import Budget, digest, safe
from ..stream import gen_case, Built, TooExpensive, corelang_spec
from ..gen_lang import Cfg
from ..gen_model import MCfg
from .. import fakeneo
from .C18 import normalise, normalise_abstract

META = {
    'rule': ('models and attack graphs from random languages and coreLang (pairs linked by one / two different associations, '
             'self-links, many-to-many instances, subtypes in duplicate-named associations) are exported through the real '
             'ingest_model / ingest_attack_graph into a recording stand-in for py2neo.Graph (the real Node / Relationship / '
             'Subgraph classes stay); an offline checker over the recorded subgraph requires exactly one database node per asset '
             '(id, name, type, label) and, per linked pair of an association instance, one relationship per direction labelled '
             'with the two field names under one uniform convention; one node per attack step with its attributes and one '
             'relationship per edge; get_model served from the recording (two-query emulation with per-pattern relationship '
             'uniqueness) must reconstruct the same assets and links; non-trivial = model with >= 2 assets and >= 1 link; '
             'distinct = digest(spec, model)'
             '; added strata: 2-4 attackers with interleaved compromises, statuses on steps that are no defense, names whose joined forms coincide'),
    'assumptions': ['the stand-in emulates only the two Cypher queries the module issues (S11); a real server is not observed',
                    'py2neo Node / Relationship / Subgraph as libraries'],
    'shards': {'quick': 8, 'thorough': 16},
    'quotas': {
        'quick': {'model-exports-checked': 200, 'db-nodes-checked': 800, 'db-relationships-checked': 1000, 'imports-compared': 200,
                  'attackgraph-exports-checked': 90, 'ag-relationships-checked': 2000, 'class:self-link': 50,
                  'class:pair-linked-by-two-associations': 30, 'class:many-to-many': 6, 'class:dup-named-assoc-subtype-link': 10, 'class:attack-graph-with-id-gap': 40},
        'thorough': {'model-exports-checked': 30000, 'imports-compared': 20000, 'attackgraph-exports-checked': 10000},
    },
}
CASES = {'quick': 1000, 'thorough': 50000}
SECONDS = {'quick': 300, 'thorough': 600}


def pair_instances(lang, am):
    out = []
    for l in am.links:
        la = lang.assocs[l['assoc']]
        for li in l['left']:
            for ri in l['right']:
                out.append((l['assoc'], li, ri, la['leftField'], la['rightField']))
    return out


def check_model_export(store, lang, am, res, count=True):
    nodes = {}
    for n in store.nodes:
        props = dict(n)
        if count:
            res.count('db-nodes-checked')
        key = props.get('asset_id')
        if key in nodes:
            return ('neo4j.ingest_model:duplicate-node', 'two database nodes for asset id %r' % key)
        nodes[key] = n
    want = {str(a['id']): a for a in am.assets}
    if set(nodes) != set(want):
        return ('neo4j.ingest_model:node-set', 'database nodes for asset ids %s, model has %s' % (sorted(nodes), sorted(want)))
    for k, a in want.items():
        props = dict(nodes[k])
        if props.get('name') != a['name'] or props.get('type') != a['type'] or str(props.get('asset_id')) != str(a['id']):
            return ('neo4j.ingest_model:node-properties', 'node for asset %s has %r' % (k, props))
        if set(nodes[k].labels) != {a['type']}:
            return ('neo4j.ingest_model:node-label', 'node for asset %s has labels %s' % (k, sorted(nodes[k].labels)))
    rels = {}
    byid = {id(n): k for k, n in nodes.items()}
    for r in store.rels:
        s, e = byid.get(id(r.start_node)), byid.get(id(r.end_node))
        if s is None or e is None:
            return ('neo4j.ingest_model:relationship-endpoint', 'a relationship ends outside the exported nodes')
        t = type(r).__name__
        rels[(s, e, t)] = rels.get((s, e, t), 0) + 1
        if count:
            res.count('db-relationships-checked')
    # expected under each uniform convention
    pairs = pair_instances(lang, am)
    conv_a, conv_b = {}, {}
    for (_ai, li, ri, lf, rf) in pairs:
        l, r = str(li), str(ri)
        for conv, (f_lr, f_rl) in ((conv_a, (lf, rf)), (conv_b, (rf, lf))):
            conv[(l, r, f_lr)] = 1
            conv[(r, l, f_rl)] = 1
    got = {k: 1 for k in rels}
    if got != conv_a and got != conv_b:
        missing = sorted(set(conv_a) - set(got))[:4]
        extra = sorted(set(got) - set(conv_a))[:4]
        one_dir = any((k[1], k[0]) not in {(x[0], x[1]) for x in got} for k in got)
        return ('neo4j.ingest_model:%s' % ('one-direction-missing' if one_dir else 'relationship-set'),
                'relationships differ from one-per-direction-per-linked-pair: missing %s unexpected %s' % (missing, extra))
    if any(v > 1 for v in rels.values()):
        return ('neo4j.ingest_model:duplicate-relationship', 'a relationship was created more than once: %s' % [k for k, v in rels.items() if v > 1][:3])
    return None


def check_ag_export(store, graph, res, count=True):
    nodes = list(store.nodes)
    if len(nodes) != len(graph.nodes):
        return ('neo4j.ingest_attack_graph:node-count', '%d database nodes for %d attack steps' % (len(nodes), len(graph.nodes)))
    by_full = {}
    for n in nodes:
        fn = dict(n).get('full_name')
        if fn in by_full:
            return ('neo4j.ingest_attack_graph:duplicate-node', 'two database nodes for %r' % fn)
        by_full[fn] = n
    for g in graph.nodes:
        n = by_full.get(g.full_name)
        if n is None:
            return ('neo4j.ingest_attack_graph:node-missing', 'no database node for attack step %s' % g.full_name)
        p = dict(n)
        want = {'name': g.name, 'full_name': g.full_name, 'type': g.type, 'ttc': str(g.ttc), 'is_necessary': str(g.is_necessary),
                'is_viable': str(g.is_viable), 'compromised_by': str([a.name for a in g.compromised_by])}
        for k, v in want.items():
            if p.get(k) != v:
                return ('neo4j.ingest_attack_graph:node-attribute', 'node %s attribute %s = %r expected %r' % (g.full_name, k, p.get(k), v))
        wd = str(g.defense_status) if g.defense_status is not None else 'N/A'
        if str(p.get('defense_status')) != wd:
            return ('neo4j.ingest_attack_graph:node-attribute', 'node %s defense_status %r expected %r' % (g.full_name, p.get('defense_status'), wd))
    rev = {id(n): k for k, n in by_full.items()}
    got = set()
    for r in store.rels:
        if count:
            res.count('ag-relationships-checked')
        got.add((rev.get(id(r.start_node)), rev.get(id(r.end_node))))
    want = {(g.full_name, c.full_name) for g in graph.nodes for c in g.children}
    if got != want:
        return ('neo4j.ingest_attack_graph:relationship-set', 'edges differ: missing %s unexpected %s' % (sorted(want - got)[:4], sorted(got - want, key=str)[:4]))
    return None


def _check_case(case, res, count=True):
    import maltoolbox.ingestors.neo4j as neo
    lang = Lang(case['spec'])
    am = AModel.from_json(case['amodel'])
    try:
        built = Built(case, attackers=False, explicit_ids=True)
    except Exception as exc:
        return ('build:raised-%s' % type(exc).__name__, 'building a generated case raised %r' % (exc,))
    pairs = pair_instances(lang, am)
    if count:
        if any(li == ri for (_a, li, ri, _l, _r) in pairs):
            res.count('class:self-link')
        seen = {}
        for (ai, li, ri, _l, _r) in pairs:
            seen.setdefault(frozenset((li, ri)), set()).add(ai)
        if any(len(v) >= 2 for v in seen.values()):
            res.count('class:pair-linked-by-two-associations')
        for l in am.links:
            la = lang.assocs[l['assoc']]
            if len(l['left']) > 1 and len(l['right']) > 1:
                res.count('class:many-to-many')
            sub = any(am.asset(i)['type'] != la['leftAsset'] for i in l['left']) or any(am.asset(i)['type'] != la['rightAsset'] for i in l['right'])
            if sub and lang.assoc_class_name(l['assoc']) != la['name']:
                res.count('class:dup-named-assoc-subtype-link')
    store = fakeneo.Store()
    old = neo.Graph
    neo.Graph = fakeneo.make_graph_class(store)
    try:
        try:
            neo.ingest_model(built.model, 'bolt://x', 'u', 'p', 'db', delete=True)
        except Exception as exc:
            return ('neo4j.ingest_model:raised-%s' % type(exc).__name__, 'ingest_model raised %r' % (exc,))
        if store.commits != 1:
            return ('neo4j.ingest_model:transaction', 'the export was committed %d times' % store.commits)
        if count:
            res.count('model-exports-checked')
        f = check_model_export(store, lang, am, res, count)
        if f:
            return f
        # import from what was ingested
        try:
            m2 = neo.get_model('bolt://x', 'u', 'p', 'db', built.lang_graph, built.factory)
        except Exception as exc:
            return ('neo4j.get_model:raised-%s' % type(exc).__name__, 'get_model raised %r on what ingest_model sent' % (exc,))
        multi = {}
        for (ai, li, ri, _l, _r) in pairs:
            multi.setdefault(frozenset((li, ri)), set()).add(ai)
        crossed = any(len(v) >= 2 for v in multi.values())
        if m2 is None:
            return ('neo4j.get_model:%s' % ('crossed-fields-for-multiply-linked-pair' if crossed else 'returned-none'),
                    'get_model returned None on what ingest_model sent%s' % (' (a pair of assets is linked by two associations)' if crossed else ''))
        if count:
            res.count('imports-compared')
        got = normalise(m2, lang)
        want = normalise_abstract(lang, am)
        # defenses are not exported: compare id, name, type only
        ga = {k: v[:2] for k, v in got[0].items()}
        wa = {k: v[:2] for k, v in want[0].items()}
        if ga != wa:
            return ('neo4j.get_model:assets', 'imported assets %s expected %s' % (ga, wa))
        if got[1] != want[1]:
            return ('neo4j.get_model:links%s' % (':multiply-linked-pair' if crossed else ''),
                    'imported links differ: only imported %s, only expected %s' % (sorted(got[1] - want[1])[:4], sorted(want[1] - got[1])[:4]))
        # attack graph export
        if case.get('with_graph'):
            try:
                g = built.attack_graph()
            except TooExpensive:
                return None
            if case.get('remove_node') is not None and len(g.nodes) > 2:
                g.remove_node(g.nodes[case['remove_node'] % (len(g.nodes) - 1)])      # ids are no longer 0..n-1
                if count:
                    res.count('class:attack-graph-with-id-gap')
            if case.get('ag_attackers') is not None and g.nodes:
                # several attackers whose compromises interleave: a step lists them in the order they arrived
                import random
                from maltoolbox.attackgraph import Attacker
                arng = random.Random(case['ag_attackers'])
                atts = []
                for nm in arng.sample(['alice', 'bob', 'carol', 'dave'], arng.randint(2, 4)):
                    t = Attacker(name=nm, entry_points=[], reached_attack_steps=[])
                    g.add_attacker(t)
                    atts.append(t)
                for _ in range(arng.randint(3, 25)):
                    t = arng.choice(atts)
                    n = g.nodes[arng.randrange(min(len(g.nodes), 6))]
                    if arng.random() < 0.75:
                        t.compromise(n)
                    else:
                        t.undo_compromise(n) if n in t.reached_attack_steps else None
                if count and any([a.id for a in n.compromised_by] != sorted(a.id for a in n.compromised_by) for n in g.nodes):
                    res.count('class:step-compromised-by-attackers-out-of-registration-order')
            if case.get('odd_status') is not None and g.nodes:
                # a status the API user put on a step that is not a defense: it is sent like any other
                import random
                orng = random.Random(case['odd_status'])
                for n in orng.sample(list(g.nodes), min(3, len(g.nodes))):
                    if n.type != 'defense':
                        n.defense_status = orng.choice([0.5, 1.0, 0.0])
                        if count:
                            res.count('class:defense-status-on-a-step-that-is-no-defense')
            store2 = fakeneo.Store()
            neo.Graph = fakeneo.make_graph_class(store2)
            names = [n.full_name for n in g.nodes]
            if len(set(names)) == len(names):
                try:
                    neo.ingest_attack_graph(g, 'bolt://x', 'u', 'p', 'db', delete=True)
                except Exception as exc:
                    return ('neo4j.ingest_attack_graph:raised-%s' % type(exc).__name__, 'ingest_attack_graph raised %r' % (exc,))
                if count:
                    res.count('attackgraph-exports-checked')
                f = check_ag_export(store2, g, res, count)
                if f:
                    return f
    finally:
        neo.Graph = old
    return None


check_case = safe(_check_case)


def run(rng, res, tier, shard, nshards):
    import maltoolbox.ingestors.neo4j as neo
    reach = Reach()
    reach.add('neo4j.ingest_model', neo.ingest_model)
    reach.add('neo4j.ingest_attack_graph', neo.ingest_attack_graph)
    reach.add('neo4j.get_model', neo.get_model)
    reach.start()
    budget = Budget(CASES[tier] // nshards + 1, SECONDS[tier])
    while budget.more():
        case = gen_case(rng, Cfg(max_assets=6, max_assocs=6, max_depth=1, dup_assoc_names=0.5, inherit_bias=0.75, shared_field_names=0.35),
                        MCfg(max_assets=7, attackers=0.0, hostile_names=0.1, explicit_ids=0.4, self_links=0.2), corelang_share=0.08)
        case['with_graph'] = rng.random() < 0.35
        case['ag_attackers'] = rng.randrange(10 ** 9) if rng.random() < 0.5 else None
        case['remove_node'] = rng.randrange(1000) if rng.random() < 0.5 else None
        case['odd_status'] = rng.randrange(10 ** 9) if rng.random() < 0.4 else None
        f = check_case(case, res)
        am = case['amodel']
        res.case(digest([case['spec'], am]) if len(am['assets']) >= 2 and am['links'] else None)
        if len(res.samples) < 3 and len(am['assets']) >= 2 and am['links']:
            res.sample({'assets': [(a['id'], a['name'], a['type']) for a in am['assets']][:6], 'links': am['links'][:6]})
        if f:
            res.violation(f[0], f[1], case)
    if budget.timed_out():
        res.notes['time-cap-hit'] = True
    reach.stop()
    res.reach = dict(reach.counts)


def replay(case, res):
    f = check_case(case, res)
    res.case(None)
    if f:
        res.violation(f[0], f[1], case)

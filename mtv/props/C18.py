"""C18 - legacy model loaders agree with the native loader."""
from __future__ import annotations

import copy
import json
import os
import shutil
import tempfile

from ..mon import Reach
from ..ref_sem import Lang, AModel
from ..result import Budget, digest, safe
from ..stream import corelang_spec
from ..gen_lang import gen_language, Cfg
from ..gen_model import gen_amodel, MCfg
from .. import legacy

META = {
    'rule': ('random abstract models over generated languages and coreLang (several entry points per attacker and per asset, '
             'associations between subtypes, duplicate-named associations, many-to-many instances, self-links, id 0, negative '
             'ids, non-default defenses) are emitted (i) as a native file, (ii) in the 0.0.39 layout (metaconcept keys, nested '
             '`association` and inline variants, shorthand assets, scalar targets; json and yaml), (iii) as a .sCAD archive '
             '(objects incl. Attacker, evidenceAttributes with capitalised defense names and parameters value, pairwise '
             'associations in securiCAD\'s crossed source/target convention in both orientations, firstSteps / <step>.attacker); '
             'each is loaded with its loader and normalised to (assets: id -> name, type, every defense value; set of '
             '(association class, left id, right id); attacker id -> set of (asset id, step)); all three must equal the native '
             'load and the abstract model; non-trivial = model with >= 2 assets, >= 1 link; distinct = digest(spec, model)'
             '; added strata: the same name twice in a file with ids not ascending, entry points without steps, the language graph regenerated between two loads, exotic characters'
             '; round 7: .eom documents stored as ISO-8859-1 / UTF-16 with the XML declaration saying so'),
    'assumptions': ['the emitters in mtv/legacy.py write what the formats mean (validated against the repository\'s own .sCAD / '
                    '0.0.39 sample files: the loaders accept them)', 'attacker names are not part of the .sCAD comparison (the format has none the loader reads)'],
    'shards': {'quick': 8, 'thorough': 16},
    'quotas': {
        'quick': {'loader:native': 300, 'loader:0.0.39-json': 200, 'loader:0.0.39-yaml': 200, 'loader:scad': 300,
                  'class:several-entry-points-per-asset': 50, 'class:attackers>=2': 50, 'class:subtype-link': 100,
                  'class:dup-named-assoc-link': 50, 'class:dup-named-assoc-subtype-link': 10, 'class:negative-id': 40,
                  'class:id-0': 100, 'class:nondefault-defense': 100, 'class:many-to-many': 7, 'scad:flipped-orientation': 100,
                  'legacy:nested-association': 100, 'legacy:inline-association': 100},
        'thorough': {'loader:native': 30000, 'loader:scad': 30000, 'class:dup-named-assoc-subtype-link': 500},
    },
}
CASES = {'quick': 1200, 'thorough': 50000}
SECONDS = {'quick': 300, 'thorough': 600}


def normalise(model, lang):
    assets = {}
    for a in model.assets:
        defs = {d: float(getattr(a, d)) for d in lang.defenses(str(a.type))}
        assets[int(a.id)] = (str(a.name), str(a.type), tuple(sorted(defs.items())))
    links = set()
    for s in model.associations:
        f1, f2 = list(s._properties.keys())
        cls = s.__class__.__name__
        # orient by the language: which field is the left one
        la = next((x for i, x in enumerate(lang.assocs) if lang.assoc_class_name(i) == cls), None)
        if la is None:
            links.add(('?' + cls, 0, 0))
            continue
        for l in getattr(s, la['leftField']):
            for r in getattr(s, la['rightField']):
                links.add((cls, int(l.id), int(r.id)))
    # entry points as the model reports them (serialised form: one entry per asset)
    atts = {}
    d = model._to_dict()
    for tid, t in d['attackers'].items():
        atts[int(tid)] = {(int(aid), st) for aid, e in t['entry_points'].items() for st in e['attack_steps']} | \
            {(int(aid), None) for aid, e in t['entry_points'].items() if not e['attack_steps']}       # an entry point without steps
    return assets, links, atts


def normalise_abstract(lang, am):
    assets = {}
    for a in am.assets:
        defs = dict(lang.defenses(a['type']))
        defs.update({k: float(v) for k, v in a['defenses'].items()})
        assets[a['id']] = (a['name'], a['type'], tuple(sorted(defs.items())))
    links = set()
    for l in am.links:
        for li in l['left']:
            for ri in l['right']:
                links.add((lang.assoc_class_name(l['assoc']), li, ri))
    atts = {t['id']: {(aid, s) for aid, st in t['entry_points'] for s in st} | {(aid, None) for aid, st in t['entry_points'] if not st}
            for t in am.attackers}
    return assets, links, atts


def diff(name, got, want):
    for k, part in enumerate(('assets', 'links', 'entry-points')):
        if got[k] != want[k]:
            if k == 0:
                ids = sorted(set(got[0]) ^ set(want[0]))
                if ids:
                    return ('%s:asset-ids' % name, 'asset ids differ: %s' % ids[:6])
                i = next(i for i in want[0] if got[0][i] != want[0][i])
                what = 'name' if got[0][i][0] != want[0][i][0] else ('type' if got[0][i][1] != want[0][i][1] else 'defenses')
                return ('%s:asset-%s' % (name, what), 'asset %s: %r expected %r' % (i, got[0][i], want[0][i]))
            if k == 1:
                return ('%s:links' % name, 'links differ: only loaded %s, only expected %s' % (sorted(got[1] - want[1])[:4], sorted(want[1] - got[1])[:4]))
            return ('%s:entry-points' % name, 'attacker entry points %s expected %s' % (
                {i: sorted(v, key=str) for i, v in got[2].items()}, {i: sorted(v) for i, v in want[2].items()}))
    return None


def _check_case(case, res, count=True):
    import random
    import yaml
    from maltoolbox.language import LanguageGraph, LanguageClassesFactory
    from maltoolbox.model import Model
    from maltoolbox.translators.updater import load_model_from_older_version
    from maltoolbox.translators.securicad import load_model_from_scad_archive
    spec = corelang_spec('core') if case['spec'] == 'corelang' else case['spec']
    lang = Lang(spec)
    am = AModel.from_json(case['amodel'])
    rng = random.Random(case['seed'])
    try:
        lg = LanguageGraph(copy.deepcopy(spec))
        fac = LanguageClassesFactory(lg)
    except Exception as exc:
        return ('build:raised-%s' % type(exc).__name__, 'building classes raised %r' % (exc,))
    dup_names = False
    if case.get('dup_name') and len(am.assets) >= 2:
        # two assets carry the same name in every file (the loaders rename the later one): what the native loader
        # makes of its file is the reference; preferably the earlier entry has the larger id
        pairs = [(i, j) for i in range(len(am.assets)) for j in range(i + 1, len(am.assets))]
        desc = [(i, j) for (i, j) in pairs if am.assets[i]['id'] > am.assets[j]['id']]
        i, j = rng.choice(desc or pairs)
        am.assets[j]['name'] = am.assets[i]['name']
        dup_names = True
        if count:
            res.count('class:same-name-twice-in-the-file')
            if desc:
                res.count('class:same-name-twice-earlier-entry-has-larger-id')
    want = normalise_abstract(lang, am)
    counters = {}
    if count:
        if any(len(st) >= 2 for t in am.attackers for _a, st in t['entry_points']):
            res.count('class:several-entry-points-per-asset')
        if len(am.attackers) >= 2:
            res.count('class:attackers>=2')
        for l in am.links:
            la = lang.assocs[l['assoc']]
            sub = any(am.asset(i)['type'] != la['leftAsset'] for i in l['left']) or any(am.asset(i)['type'] != la['rightAsset'] for i in l['right'])
            dup = lang.assoc_class_name(l['assoc']) != la['name']
            if sub:
                res.count('class:subtype-link')
            if dup:
                res.count('class:dup-named-assoc-link')
            if sub and dup:
                res.count('class:dup-named-assoc-subtype-link')
            if len(l['left']) > 1 and len(l['right']) > 1:
                res.count('class:many-to-many')
        ids = [a['id'] for a in am.assets]
        if 0 in ids:
            res.count('class:id-0')
        if any(i < 0 for i in ids):
            res.count('class:negative-id')
        if any(float(v) != lang.defenses(a['type'])[k] for a in am.assets for k, v in a['defenses'].items()):
            res.count('class:nondefault-defense')
    d = tempfile.mkdtemp(prefix='c18-', dir=os.getcwd())
    try:
        # (i) native
        p = os.path.join(d, 'native.json')
        with open(p, 'w') as f:
            json.dump(legacy.native_dict(lang, am), f)
        try:
            native = normalise(Model.load_from_file(p, fac), lang)
        except Exception as exc:
            return ('native:raised-%s' % type(exc).__name__, 'the native loader raised %r on the equivalent native file' % (exc,))
        if count:
            res.count('loader:native')
        f = diff('native', native, want) if not dup_names else None
        if f:
            return f
        # (ii) 0.0.39
        for ext in ('json', 'yaml'):
            ld = legacy.legacy_0_0_39_dict(rng, lang, am, counters)
            p = os.path.join(d, 'old.' + ext)
            with open(p, 'w', encoding='utf-8') as fh:
                if ext == 'json':
                    json.dump(ld, fh)
                else:
                    # (PyYAML's emitter writes U+0085 / U+2028 / U+2029 raw with allow_unicode and its own loader then
                    # folds them: such files would not say what the model says)
                    yaml.safe_dump(ld, fh, sort_keys=False,
                                   allow_unicode=not any(c in json.dumps(ld, ensure_ascii=False) for c in '\x85\u2028\u2029'))
            try:
                m = load_model_from_older_version(p, fac, '0.0.39')
            except Exception as exc:
                return ('updater:raised-%s' % type(exc).__name__, 'load_model_from_older_version(.%s) raised %r' % (ext, exc))
            if count:
                res.count('loader:0.0.39-' + ext)
            f = diff('updater', normalise(m, lang), native)
            if f:
                return (f[0], '0.0.39 .%s file: %s' % (ext, f[1]))
        # (iii) sCAD (object ids are shared between assets and attackers)
        aids = {a['id'] for a in am.assets}
        from ..gen_model import XML_INVALID
        xml_ok = not any(set(x['name']) & XML_INVALID for x in list(am.assets) + list(am.attackers))   # an XML 1.0 file cannot hold them
        if all(t['id'] not in aids for t in am.attackers) and xml_ok:
            p = os.path.join(d, 'm.sCAD')
            xml_text = legacy.scad_xml(rng, lang, am, counters)
            import zlib
            enc = ('utf-8', 'utf-8', 'utf-8', 'iso-8859-1', 'utf-16')[zlib.crc32(xml_text.encode('utf-8')) % 5]
            enc = legacy.write_scad(p, xml_text, enc)
            if count and enc != 'utf-8':
                res.count('class:eom-document-not-in-utf-8')
                if any(ord(ch) > 127 for ch in xml_text):
                    res.count('class:eom-document-not-in-utf-8-with-non-ascii-text')
            try:
                m = load_model_from_scad_archive(p, lg, fac)
            except Exception as exc:
                return ('securicad:raised-%s' % type(exc).__name__, 'load_model_from_scad_archive raised %r' % (exc,))
            if m is None:
                return ('securicad:returned-none', 'load_model_from_scad_archive returned None for a model expressible in the format')
            if count:
                res.count('loader:scad')
            # (an entry point without steps has no expression in the .eom format)
            native_s = (native[0], native[1], {i: {e for e in v if e[1] is not None} for i, v in native[2].items()})
            f = diff('securicad', normalise(m, lang), native_s)
            if f:
                return f
            if case.get('regenerate'):
                # the language graph is regenerated (same specification) and the archive loaded again
                try:
                    lg.regenerate_graph()
                    fac2 = fac if rng.random() < 0.5 else LanguageClassesFactory(lg)
                    m = load_model_from_scad_archive(p, lg, fac2)
                    m9 = load_model_from_older_version(os.path.join(d, 'old.json'), fac2, '0.0.39')
                except Exception as exc:
                    return ('securicad:raised-%s:after-regenerate' % type(exc).__name__,
                            'after lang_graph.regenerate_graph() loading the same files again raised %r' % (exc,))
                if count:
                    res.count('class:loaded-again-after-regenerate_graph')
                f = (diff('securicad', normalise(m, lang), native_s) if m is not None else ('securicad:returned-none', 'None after regenerate')) or \
                    diff('updater', normalise(m9, lang), native)
                if f:
                    return (f[0] + ':after-regenerate', 'after lang_graph.regenerate_graph(): ' + f[1])
    finally:
        shutil.rmtree(d, ignore_errors=True)
        if count:
            for k, v in counters.items():
                res.count(k, v)
    return None


check_case = safe(_check_case)


def gen_case18(rng, cache):
    if rng.random() < 0.3:
        spec, s = corelang_spec('core'), 'corelang'
    else:
        spec = gen_language(rng, Cfg(max_assets=6, max_assocs=6, max_depth=1, dup_assoc_names=0.5, inherit_bias=0.75))
        s = spec
    lang = Lang(spec)
    am = gen_amodel(rng, lang, MCfg(max_assets=8, attackers=0.8, hostile_names=0.1, explicit_ids=0.5, large=rng.random() < 0.04))
    # attacker ids: after the assets, sometimes explicit
    nxt = max([a['id'] for a in am.assets] + [-1]) + 1
    for t in am.attackers:
        t['id'] = nxt
        nxt += rng.choice([1, 1, 3])
        # several steps per asset, several assets
        eps = {}
        for a in rng.sample(am.assets, min(len(am.assets), rng.randint(0, 3))):
            steps = list(lang.steps(a['type']))
            if steps:
                eps[a['id']] = rng.sample(steps, min(len(steps), rng.randint(1, 3)))
        if rng.random() < 0.25:
            rest = [a for a in am.assets if a['id'] not in eps]
            if rest:
                eps[rng.choice(rest)['id']] = []            # an entry point that names no step (yet)
        t['entry_points'] = [(k, v) for k, v in eps.items()]
    return {'spec': s, 'amodel': am.to_json(), 'seed': rng.randrange(10 ** 9), 'dup_name': rng.random() < 0.2, 'regenerate': rng.random() < 0.3}


def run(rng, res, tier, shard, nshards):
    from maltoolbox.translators import updater, securicad
    reach = Reach()
    reach.add('updater.load_model_from_version_0_0_39', updater.load_model_from_version_0_0_39)
    reach.add('securicad.load_model_from_scad_archive', securicad.load_model_from_scad_archive)
    reach.start()
    budget = Budget(CASES[tier] // nshards + 1, SECONDS[tier])
    while budget.more():
        case = gen_case18(rng, None)
        f = check_case(case, res)
        am = case['amodel']
        res.case(digest(case) if len(am['assets']) >= 2 and am['links'] else None)
        if len(res.samples) < 3 and len(am['assets']) >= 2 and am['links']:
            res.sample({'assets': [(a['id'], a['name'], a['type'], a['defenses']) for a in am['assets']][:6], 'links': am['links'][:6], 'attackers': am['attackers'][:2]})
        if f:
            res.violation(f[0], f[1], case)
    if budget.timed_out():
        res.notes['time-cap-hit'] = True
    reach.stop()
    res.reach = dict(reach.counts)


def replay(case, res):
    f = check_case(case, res)
    res.case(None)
    if f:
        res.violation(f[0], f[1], case)

"""C02 - one node per asset x step, attributes faithful to model and language."""
from __future__ import annotations

import copy

from ..mon import Reach
from ..ref_sem import Lang, AModel, eval_expr
from ..result import Budget, digest, safe
from ..stream import TooExpensive, gen_case, Built, shrink_case
from ..gen_lang import Cfg
from ..gen_model import MCfg

META = {
    'rule': ('random well-formed language (multi-level inheritance with override/extend/no-reaches redefinitions, '
             'defenses Enabled/Disabled/without TTC, exist/notExist steps) x random valid model (non-default defense '
             "values, names containing ':', duplicate requested names incl. ones that collide after automatic "
             'renaming); after generation the node multiset, every node attribute, the id/full-name uniqueness and '
             'both lookups are compared with the reference product asset x folded steps; non-trivial = at least 2 '
             'nodes and at least one defense or existence node or inherited step; distinct = digest(spec, model)'
             "; added strata: refused re-adds of linked assets at the end of histories; in-place edit of one node's tags / ttc must show nowhere else (other nodes, a later graph); inheritance chains up to 15; interference layer; DEBUG log level"
             '; round 7: language graph built through four routes (dict, .mar, saved specification, MAL source)'),
    'assumptions': ['reference step fold and interval semantics in mtv/ref_sem.py',
                    'the implementation may choose the replacement for a duplicate name (S5); only uniqueness and '
                    '"an unused name is kept" are asserted on that choice'],
    'shards': {'quick': 8, 'thorough': 16},
    'quotas': {
        'quick': {'nodes-compared': 1000, 'defense-nondefault': 10, 'exist-true': 1, 'exist-false': 1,
                  'step-inherited': 10, 'step-overridden': 5, 'name-with-colon': 5, 'dup-name-requested': 5,
                  'rename-collision-pattern': 2, 'lookups-compared': 1000, 'class:exist-requirement-setop-multi-source': 20, 'class:model-reached-through-edit-history': 20},
        'thorough': {'nodes-compared': 100000, 'defense-nondefault': 1000, 'exist-true': 50, 'exist-false': 50,
                     'step-inherited': 1000, 'step-overridden': 500, 'name-with-colon': 500,
                     'dup-name-requested': 500, 'rename-collision-pattern': 100, 'lookups-compared': 100000},
    },
}
CASES = {'quick': 1600, 'thorough': 100000}
SECONDS = {'quick': 300, 'thorough': 600}


def hostile_names(rng, case):
    """rewrite some requested names: ':' inside, duplicates, and the pattern
    n / n:<id> / n whose automatic renaming collides"""
    am = case['amodel']
    assets = am['assets']
    for a in assets:
        a['req_name'] = a['name']
    if len(assets) >= 2 and rng.random() < 0.5:
        for a in assets:
            r = rng.random()
            if r < 0.15:
                a['req_name'] = a['name'] + ':' + rng.choice(['x', '1', 'access', ''])
            elif r < 0.35:
                a['req_name'] = rng.choice(assets)['name']
    if len(assets) >= 3 and rng.random() < 0.25:
        # ids are known in advance only for automatic numbering; use the
        # abstract ids (explicit ids are passed when they differ)
        i = rng.randrange(2, len(assets))
        base = assets[0].get('req_name', assets[0]['name'])
        assets[1]['req_name'] = '%s:%d' % (base, assets[i]['id'])
        assets[i]['req_name'] = base
        case['rename_pattern'] = True
    return case


def hostile_requires(rng, case):
    """existence steps whose requirement is a set operator evaluated from several sources
    (f.(g op h)): the element-wise and the whole-set reading differ exactly in whether the
    requirement reaches anything"""
    lang = Lang(case['spec'], snapshot=False)
    for a in case['spec']['assets']:
        t = a['name']
        for s in a['attackSteps']:
            if s['type'] not in ('exist', 'notExist') or not s['requires'] or rng.random() < 0.4:
                continue
            if lang.parent[t] and s['name'] in lang.steps(lang.parent[t]):
                continue      # redefinitions keep the ancestor's requirement
            f1 = lang.fields_of(t)
            if not f1:
                continue
            f = rng.choice(sorted(f1))
            u = f1[f][0][1]
            f2 = lang.fields_of(u)
            if not f2:
                continue
            g, h = rng.choice(sorted(f2)), rng.choice(sorted(f2))
            if lang.lca(f2[g][0][1], f2[h][0][1]) is None:
                continue
            op = rng.choice(['difference', 'difference', 'intersection'])
            s['requires'] = {'overrides': True, 'stepExpressions': [
                {'type': 'collect', 'lhs': {'type': 'field', 'name': f},
                 'rhs': {'type': op, 'lhs': {'type': 'field', 'name': g}, 'rhs': {'type': 'field', 'name': h}}}]}
            case['hostile_requires'] = True
    lang._fold_cache.clear()
    return case


def targeted_departures(rng, spec, history):
    """remove_from_assoc operations for assets that have an existence step whose requirement starts with the field
    through which the association is seen, taken from associations that survive the departure (>= 2 members on
    that side): exactly the edits after which 'does the requirement reach anything' changes"""
    from ..shadow import Lockstep, Divergence
    try:
        ls = Lockstep(spec)
        ls.check_every_step = False
        for op in history:
            ls.apply(op)
    except (Divergence, Exception):
        return []
    lang, sh = ls.lang, ls.sh

    def first_fields(e, acc):
        k = e['type']
        if k == 'field':
            acc.add(e['name'])
        elif k in ('collect',):
            first_fields(e['lhs'], acc)
        elif k in ('union', 'intersection', 'difference'):
            first_fields(e['lhs'], acc)
            first_fields(e['rhs'], acc)
        elif k in ('subType', 'transitive'):
            first_fields(e['stepExpression'], acc)
        elif k == 'variable':
            pass
        return acc
    cands = []
    for si, srec in enumerate(sh.assocs):
        la = lang.assocs[srec.ai]
        for side, seen_through in ((srec.left, la['rightField']), (srec.right, la['leftField'])):
            if len(side) < 2:
                continue
            for key in side:
                a = sh.asset(key)
                for st in lang.steps(a.type).values():
                    if st['type'] in ('exist', 'notExist') and st['requires'] and seen_through in first_fields(st['requires']['stepExpressions'][0], set()):
                        cands.append(['remove_from_assoc', ['live', sh.assets.index(a)], ['live', si]])
    rng.shuffle(cands)
    return cands[:3]


def targeted_links(rng, spec, history):
    """(ops before the generation, ops after it): two assets X1, X2 of a type with an existence step share one
    association instance that gives X1 what its requirement asks for; after the generation X1 leaves that
    association (which survives because X2 stays)"""
    from ..shadow import Lockstep, Divergence
    try:
        ls = Lockstep(spec)
        ls.check_every_step = False
        for op in history:
            ls.apply(op)
    except (Divergence, Exception):
        return [], []
    lang, sh = ls.lang, ls.sh
    conc = lang.concrete()
    options = []
    for t in conc:
        for st in lang.steps(t).values():
            if st['type'] not in ('exist', 'notExist') or not st['requires']:
                continue
            e = st['requires']['stepExpressions'][0]
            while e['type'] in ('collect',):
                e = e['lhs']
            if e['type'] != 'field':
                continue
            f = e['name']
            for ai, la in enumerate(lang.assocs):
                if la['leftField'] == f and lang.is_sub(t, la['rightAsset']) and (la['rightMultiplicity']['max'] in (None,) or la['rightMultiplicity']['max'] >= 2):
                    ys = [c for c in conc if lang.is_sub(c, la['leftAsset'])]
                    if ys:
                        options.append((t, ai, 'right', rng.choice(ys)))
                if la['rightField'] == f and lang.is_sub(t, la['leftAsset']) and (la['leftMultiplicity']['max'] in (None,) or la['leftMultiplicity']['max'] >= 2):
                    ys = [c for c in conc if lang.is_sub(c, la['rightAsset'])]
                    if ys:
                        options.append((t, ai, 'left', rng.choice(ys)))
    if not options:
        return [], []
    t, ai, side, ytype = rng.choice(options)
    n = len(sh.assets)
    pre = [['add_asset', t, 'leaver', None, True], ['add_asset', t, 'stayer', None, True], ['add_asset', ytype, 'wanted', None, True]]
    xs, y = [['live', n], ['live', n + 1]], [['live', n + 2]]
    pre.append(['add_assoc', ai, y, xs] if side == 'right' else ['add_assoc', ai, xs, y])
    post = [['remove_from_assoc', ['live', n], ['live', len(sh.assocs)]]]
    return pre, post


def _check_case(case, res, count=True):
    case = copy.deepcopy(case)
    try:
        if 'history' in case:
            from ..shadow import Divergence
            try:
                built = Built.from_history(case)
            except Divergence:
                return None
            if count:
                res.count('class:model-reached-through-edit-history')
        else:
            built = Built(case, attackers=False)
    except Exception as exc:
        return ('model.build:raised-%s' % type(exc).__name__, 'building a valid model raised %r' % (exc,))
    lang, am = built.lang, built.am
    # constraints on names chosen by the implementation
    seen = set()
    for a in (am.assets if 'history' not in case else []):
        req = a.get('req_name')
        if req is not None:
            if count:
                res.count('dup-name-requested' if req in seen or req != a['name'] else 'name-requested-kept')
            if req not in seen and a['name'] != req:
                return ('model.add_asset:unused-name-changed', 'requested unused name %r became %r' % (req, a['name']))
        if a['name'] in seen:
            return ('model.add_asset:renamed-name-collides',
                    'two live assets are called %r (requested %r)' % (a['name'], req))
        seen.add(a['name'])
        if ':' in a['name'] and count:
            res.count('name-with-colon')
    if case.get('rename_pattern') and count:
        res.count('rename-collision-pattern')
    try:
        graph = built.attack_graph()
    except TooExpensive:
        res.count('skipped:too-expensive')
        return None
    except Exception as exc:
        return ('attackgraph.generate:raised-%s' % type(exc).__name__, 'generation raised %r' % (exc,))
    f = check_graph(built, graph, res, count)
    if f or len(graph.nodes) < 2 or len(graph.nodes) % 4 != 0:
        return f
    # per-node data is per node: an in-place edit of one node's tags / ttc shows nowhere else - not on the other nodes,
    # not in a graph generated afterwards from the same language graph and model
    nodes = list(graph.nodes)
    target = nodes[len(nodes) // 3]
    before = [(copy.deepcopy(n.tags), copy.deepcopy(n.ttc), copy.deepcopy(n.mitre_info)) for n in nodes]
    if isinstance(target.tags, list):
        target.tags.append('suppress')
    if isinstance(target.ttc, dict):
        target.ttc['arguments'] = [123.0]
        target.ttc['name'] = 'Edited'
    if isinstance(getattr(target, 'attributes', None), dict) and isinstance(target.attributes.get('tags'), list):
        target.attributes['tags'].append('attr-edit')
    if count:
        res.count('class:in-place-edit-of-one-node')
    for n, b in zip(nodes, before):
        if n is target:
            continue
        if (n.tags, n.ttc, n.mitre_info) != b:
            return ('attackgraph.nodes:per-node-data-shared',
                    'after editing tags / ttc of node %s in place, node %s reads tags %r ttc %r (before: %r %r)' % (
                        target.full_name, n.full_name, n.tags, n.ttc, b[0], b[1]))
    try:
        graph2 = built.attack_graph()
    except TooExpensive:
        return None
    except Exception as exc:
        return ('attackgraph.generate:raised-%s' % type(exc).__name__, 'second generation raised %r' % (exc,))
    f = check_graph(built, graph2, res, count=False)
    if f:
        return (f[0], 'graph generated after a node of an earlier graph was edited in place: ' + f[1])
    return None


check_case = safe(_check_case)


def check_graph(built, graph, res, count=True):
    lang, am = built.lang, built.am
    rev = {id(o): aid for aid, o in built.objs.items()}
    expected = {}
    for a in am.assets:
        own = {s['name'] for s in lang.assets[a['type']]['attackSteps']}
        for n, s in lang.steps(a['type']).items():
            expected[(a['id'], n)] = (a, s)
            if count:
                if n not in own:
                    res.count('step-inherited')
                elif lang.parent[a['type']] and n in lang.steps(lang.parent[a['type']]):
                    res.count('step-overridden')
    got = {}
    for n in graph.nodes:
        key = (rev.get(id(n.asset)), n.name)
        if key in got:
            return ('attackgraph.nodes:duplicate-node', 'two nodes for asset %s step %s' % key)
        got[key] = n
    if set(got) != set(expected):
        missing = sorted(set(expected) - set(got), key=str)[:5]
        extra = sorted(set(got) - set(expected), key=str)[:5]
        return ('attackgraph.nodes:%s' % ('missing-node' if missing else 'extra-node'),
                'node set differs from asset x steps: missing %s extra %s' % (missing, extra))
    ids, names = {}, {}
    for key, n in got.items():
        a, s = expected[key]
        if count:
            res.count('nodes-compared')
        if n.type != s['type']:
            return ('attackgraph.node-attr:type', 'node %s type %r expected %r' % (key, n.type, s['type']))
        if n.ttc != s['ttc']:
            return ('attackgraph.node-attr:ttc', 'node %s ttc %r expected %r' % (key, n.ttc, s['ttc']))
        if list(n.tags) != list(s['tags']):
            return ('attackgraph.node-attr:tags', 'node %s tags %r expected %r' % (key, n.tags, s['tags']))
        want_mitre = s['meta'].get('mitre')
        if n.mitre_info != want_mitre:
            return ('attackgraph.node-attr:mitre', 'node %s mitre %r expected %r' % (key, n.mitre_info, want_mitre))
        if s['type'] == 'defense':
            dflt = lang.defenses(a['type'])[n.name]
            want = float(a['defenses'].get(n.name, dflt))
            if count and want != dflt:
                res.count('defense-nondefault')
            try:
                gotv = float(n.defense_status)
            except Exception:
                gotv = None
            if gotv != want:
                return ('attackgraph.node-attr:defense_status',
                        'node %s defense_status %r expected %r (default %r)' % (key, n.defense_status, want, dflt))
        elif n.defense_status is not None:
            return ('attackgraph.node-attr:defense_status', 'non-defense node %s has defense_status %r' % (key, n.defense_status))
        if s['type'] in ('exist', 'notExist'):
            lo, hi = eval_expr(lang, am, a['id'], s['requires']['stepExpressions'][0])
            if not isinstance(n.existence_status, bool):
                return ('attackgraph.node-attr:existence_status', 'node %s existence_status %r is not a bool' % (key, n.existence_status))
            if lo and n.existence_status is not True:
                return ('attackgraph.node-attr:existence_status', 'node %s: requirement reaches %s but status is False' % (key, sorted(lo)))
            if not hi and n.existence_status is not False:
                return ('attackgraph.node-attr:existence_status', 'node %s: requirement reaches nothing but status is True' % (key,))
            if count:
                res.count('exist-true' if n.existence_status else 'exist-false')
                e0 = s['requires']['stepExpressions'][0]
                if e0['type'] == 'collect' and e0['rhs']['type'] in ('difference', 'intersection', 'union'):
                    src = eval_expr(lang, am, a['id'], e0['lhs'])[1]
                    if len(src) >= 2:
                        res.count('class:exist-requirement-setop-multi-source')
        elif n.existence_status is not None:
            return ('attackgraph.node-attr:existence_status', 'node %s of type %s has existence_status' % (key, s['type']))
        want_full = a['name'] + ':' + n.name
        if n.full_name != want_full:
            return ('attackgraph.node-attr:full_name', 'node %s full name %r expected %r' % (key, n.full_name, want_full))
        if n.id in ids:
            return ('attackgraph.nodes:duplicate-id', 'id %r given to %s and %s' % (n.id, ids[n.id], key))
        ids[n.id] = key
        if n.full_name in names:
            return ('attackgraph.nodes:duplicate-full-name', 'full name %r for %s and %s' % (n.full_name, names[n.full_name], key))
        names[n.full_name] = key
    for key, n in got.items():
        if count:
            res.count('lookups-compared', 2)
        if graph.get_node_by_id(n.id) is not n:
            return ('attackgraph.lookup:by-id', 'get_node_by_id(%r) does not return node %s' % (n.id, key))
        if graph.get_node_by_full_name(n.full_name) is not n:
            return ('attackgraph.lookup:by-full-name', 'get_node_by_full_name(%r) does not return node %s' % (n.full_name, key))
    absent_ids = [-1000, (max(ids) + 1) if ids else 0, (max(ids) + 7) if ids else 5]
    for i in absent_ids:
        if i not in ids and graph.get_node_by_id(i) is not None:
            return ('attackgraph.lookup:stale-id', 'get_node_by_id(%r) returned a node for an absent id' % i)
    for nm in ['no such:step', ':', '']:
        if nm not in names and graph.get_node_by_full_name(nm) is not None:
            return ('attackgraph.lookup:stale-name', 'get_node_by_full_name(%r) returned a node' % nm)
    return None


def nontrivial(case):
    lang = Lang(case['spec'])
    n = 0
    special = False
    for a in case['amodel']['assets']:
        st = lang.steps(a['type'])
        n += len(st)
        own = {s['name'] for s in lang.assets[a['type']]['attackSteps']}
        if any(s['type'] in ('defense', 'exist', 'notExist') or k not in own for k, s in st.items()):
            special = True
    return n >= 2 and special


def run(rng, res, tier, shard, nshards):
    import maltoolbox.attackgraph.attackgraph as agmod
    from maltoolbox.attackgraph.node import AttackGraphNode
    from maltoolbox.model import Model
    reach = Reach()
    reach.add('AttackGraph._generate_graph', agmod.AttackGraph._generate_graph)
    reach.add('AttackGraph.add_node', agmod.AttackGraph.add_node)
    reach.add('AttackGraphNode.full_name', AttackGraphNode.full_name.fget)
    reach.add('Model.add_asset', Model.add_asset)
    reach.start()
    budget = Budget(CASES[tier] // nshards + 1, SECONDS[tier])
    while budget.more():
        lcfg = Cfg(inherit_bias=0.75) if rng.random() < 0.5 else Cfg()
        case = gen_case(rng, lcfg, MCfg(hostile_names=0.25, link_density=rng.choice([1.0, 1.8])), corelang_share=0.04)
        case = hostile_names(rng, case)
        if case['source'] == 'generated' and rng.random() < 0.6:
            case = hostile_requires(rng, case)
        if case['source'] == 'generated' and rng.random() < 0.12:
            from ..shadow import gen_history
            h = gen_history(rng, Lang(case['spec']), rng.randint(5, 30), invalid=0.0, attackers=False, names=['srv', 'db', 'n', 'x', None])
            for _ in range(rng.randint(1, 3)):
                h.insert(rng.randrange(len(h) + 1), ['add_assoc', rng.randrange(64), [['live', rng.randrange(64)], ['live', rng.randrange(64)]], [['live', rng.randrange(64)]]])
            pre, post = targeted_links(rng, case['spec'], h)
            h.extend(pre)
            cut = len(h)
            h.extend(post)
            if not pre:
                h.extend(targeted_departures(rng, case['spec'], h[:cut]))
                for _ in range(rng.randint(0, 3)):
                    h.append(['remove_from_assoc', ['live', rng.randrange(64)], ['live', rng.randrange(64)]])
            if rng.random() < 0.5:
                # operations that are refused (an asset of the model added again under its own id): nothing may change
                for _ in range(rng.randint(1, 6)):
                    h.append(['re_add_asset', ['live', rng.randrange(64)]])
            case = {'source': 'history', 'spec': case['spec'], 'amodel': {'assets': [], 'links': [], 'attackers': []},
                    'history': h, 'generate_after': cut}
        first = check_case(case, res)
        res.case(digest([case['spec'], case['amodel'], case.get('history')]) if (nontrivial(case) or 'history' in case) else None)
        if len(res.samples) < 3 and len(case['amodel']['assets']) >= 2:
            res.sample({'assets': [(a['id'], a.get('req_name', a['name']), a['type'], a['defenses']) for a in case['amodel']['assets']],
                        'types': {a['name']: [s['name'] + ':' + s['type'] for s in a['attackSteps']] for a in case['spec']['assets']}})
        if first:
            key, what = first

            def still(c, key=key):
                from ..result import Result
                f2 = check_case(c, Result('C02', 'shrink', 0, 0), count=False)
                return f2 is not None and f2[0] == key
            small = case if ('history' in case or key in res.viol_counts or len(res.viol_counts) >= 4) else shrink_case(case, still, max_runs=60)[0]
            res.violation(key, what, {'minimised': small, 'original': case})
    if budget.timed_out():
        res.notes['time-cap-hit'] = True
    reach.stop()
    res.reach = dict(reach.counts)


def replay(case, res):
    for c in (case.get('minimised'), case.get('original', case)):
        if c is None:
            continue
        first = check_case(c, res)
        res.case(None)
        if first:
            res.violation(first[0], first[1], case)
            return

"""C05 - the instance model stays coherent under any history of edits."""
from __future__ import annotations

import copy
import itertools

from ..mon import Reach
from ..ref_sem import Lang
from ..result import Budget, digest
from ..shadow import big_link_prefix, empty_side_prefix, Lockstep, Divergence, gen_history
from ..stream import corelang_spec
from ..gen_lang import gen_language, Cfg

META = {
    'rule': ('lock-step reference model: every Model / AttackerAttachment call of a history is applied to the real Model '
             'and to an abstract shadow; after EVERY step all observables are compared (_to_dict assets / associations / '
             'attackers, get_asset_by_id/name for live, removed and unused keys, neighbours for every live asset x every '
             'field, asset.associations <-> membership, entry points, reserved ids and names); an operation the shadow '
             'considers invalid may raise (then a full observable snapshot before == after) ; end-of-history probes re-use '
             'every removed id and name. Workloads: bounded-exhaustive histories (all sequences of length <= 3, thorough 4, '
             'over a tiny universe of 21 operations: 2 types, names a/b, ids auto/0/1/-1, one reflexive and one ordinary '
             'association, 1 attacker) + random histories of length <= 60 over coreLang and generated languages with 20 % '
             'invalid arguments; non-trivial = history with >= 1 removal and >= 1 association; distinct = digest(history)'
             '; added strata: refused re-add of an asset of the model, ids given as schema integers, entry points without steps, attackers prepared before their assets were added, association instances with an empty side, instances with 33-144 pairs and duplicate attempts against them'
             "; round 7: add_asset refused for an id of a wrong type (5.0, True, '5') followed by a valid add of the same id"),
    'assumptions': ['shadow semantics in mtv/shadow.py', 'the implementation may choose automatic ids and replacement names (S5)',
                    'linking removed/foreign assets and clashing attacker ids are outside the property and not generated'],
    'shards': {'quick': 8, 'thorough': 16},
    'quotas': {
        'quick': {'class:duplicate-attempt-with-more-than-32-pairs': 10, 'class:link-with-more-than-32-pairs': 3, 'steps-compared': 10000, 'op:add_asset:ok': 3000, 'op:remove_asset:ok': 1000, 'op:add_association:ok': 600,
                  'op:remove_association:ok': 100, 'op:remove_asset_from_association:ok': 60, 'op:add_attacker:ok': 200,
                  'op:remove_attacker:ok': 50, 'op:add_entry_point': 100, 'op:remove_entry_point': 20,
                  'op:add_asset-dup-id:raised': 50, 'op:add_asset-dup-name:raised': 50, 'op:add_association-dup-link:raised': 20,
                  'class:explicit-id-0': 100, 'class:explicit-id-negative': 100, 'class:id-reuse': 50, 'class:name-reuse': 50,
                  'class:rename': 100, 'class:self-link': 50, 'class:multi-member-field': 50,
                  'probe:removed-id-reused': 100, 'probe:removed-name-reused': 100, 'exhaustive-histories': 1000},
        'thorough': {'steps-compared': 1000000, 'op:add_asset:ok': 100000, 'op:remove_asset:ok': 50000,
                     'op:add_association:ok': 50000, 'class:self-link': 2000, 'class:explicit-id-0': 5000,
                     'probe:removed-id-reused': 5000, 'exhaustive-histories': 100000},
    },
}
CASES = {'quick': 1400, 'thorough': 150000}
SECONDS = {'quick': 300, 'thorough': 600}

TINY_SPEC = {
    'formatVersion': '1.0.0', 'defines': {'id': 'org.mtv.tiny', 'version': '1.0.0'},
    'categories': [{'name': 'Core', 'meta': {}}],
    'assets': [
        {'name': 'Base', 'meta': {}, 'category': 'Core', 'isAbstract': False, 'superAsset': None, 'variables': [],
         'attackSteps': [
             {'name': 's1', 'meta': {}, 'type': 'or', 'tags': [], 'risk': None, 'ttc': None, 'requires': None,
              'reaches': {'overrides': True, 'stepExpressions': [{'type': 'collect', 'lhs': {'type': 'field', 'name': 'rb'}, 'rhs': {'type': 'attackStep', 'name': 's1'}}]}},
             {'name': 'd1', 'meta': {}, 'type': 'defense', 'tags': [], 'risk': None, 'ttc': {'type': 'function', 'name': 'Disabled', 'arguments': []}, 'requires': None, 'reaches': None}]},
        {'name': 'Sub', 'meta': {}, 'category': 'Core', 'isAbstract': False, 'superAsset': 'Base', 'variables': [],
         'attackSteps': [{'name': 's2', 'meta': {}, 'type': 'and', 'tags': [], 'risk': None, 'ttc': None, 'requires': None, 'reaches': None}]},
    ],
    'associations': [
        {'name': 'R', 'meta': {}, 'leftAsset': 'Base', 'leftField': 'ra', 'leftMultiplicity': {'min': 0, 'max': None},
         'rightAsset': 'Base', 'rightField': 'rb', 'rightMultiplicity': {'min': 0, 'max': None}},
        {'name': 'O', 'meta': {}, 'leftAsset': 'Base', 'leftField': 'oa', 'leftMultiplicity': {'min': 0, 'max': 1},
         'rightAsset': 'Sub', 'rightField': 'ob', 'rightMultiplicity': {'min': 0, 'max': None}},
    ],
}
F, L = ['live', 0], ['live', 63]     # first / "last" (63 mod n) live object
TINY_OPS = [
    ['add_asset', 'Base', 'a', None, True],
    ['add_asset', 'Sub', 'a', None, True],
    ['add_asset', 'Sub', 'b', 0, True],
    ['add_asset', 'Base', 'a', 1, True],
    ['add_asset', 'Base', 'b', -1, True],
    ['add_asset', 'Base', 'a', None, False],
    ['add_asset', 'Sub', None, None, True],
    ['remove_asset', F],
    ['remove_asset', L],
    ['remove_asset', ['dead', 0]],
    ['add_assoc', 0, [F], [F]],
    ['add_assoc', 0, [F], [L]],
    ['add_assoc', 0, [F, L], [F]],
    ['add_assoc', 1, [F], [L]],
    ['remove_assoc', F],
    ['remove_assoc', ['dead', 0]],
    ['remove_from_assoc', F, F],
    ['add_attacker', None, None],
    ['remove_attacker', F],
    ['add_ep', F, F, 0],
    ['remove_ep', F, F, 0],
]


def run_history(spec, history, res, lang_graph=None, factory=None, probes=True, count=True):
    """returns (key, what) of the first divergence or None"""
    counters = {}
    try:
        ls = Lockstep(spec, factory=factory, lang_graph=lang_graph, counters=counters)
    except Exception as exc:
        return ('build:raised-%s' % type(exc).__name__, 'building language graph / classes raised %r' % (exc,))
    first = None
    try:
        for op in history:
            ls.apply(op)
        if probes:
            ls.final_probes()
    except Divergence as d:
        first = (d.key, d.what)
    except Exception as exc:
        import traceback
        first = ('harness:raised-%s' % type(exc).__name__, 'unexpected %r at step %d: %s' % (exc, ls.step_no, traceback.format_exc()[-600:]))
    if count:
        for k, v in counters.items():
            res.count(k, v)
    return first


def shrink_history(spec, history, key, max_runs=80):
    from ..result import Result
    h = list(history)
    runs = 0
    i = len(h) - 1
    while i >= 0 and runs < max_runs:
        h2 = h[:i] + h[i + 1:]
        f = run_history(spec, h2, Result('C05', 's', 0, 0), count=False)
        runs += 1
        if f and f[0] == key:
            h = h2
        i -= 1
    return h


def nontrivial(history):
    kinds = {op[0] for op in history}
    return bool(kinds & {'remove_asset', 'remove_assoc', 'remove_from_assoc'}) and 'add_assoc' in kinds


def run(rng, res, tier, shard, nshards):
    from maltoolbox.model import Model, AttackerAttachment
    from maltoolbox.language import LanguageGraph, LanguageClassesFactory
    reach = Reach()
    for fn in ('add_asset', 'remove_asset', 'remove_asset_from_association', 'remove_association', 'add_association',
               '_validate_association', 'association_exists_between_assets', 'get_associated_assets_by_field_name',
               'add_attacker', 'remove_attacker'):
        reach.add('Model.' + fn, getattr(Model, fn, None))
    reach.add('AttackerAttachment.add_entry_point', AttackerAttachment.add_entry_point)
    reach.add('AttackerAttachment.remove_entry_point', AttackerAttachment.remove_entry_point)
    reach.start()
    # (1) bounded-exhaustive over the tiny universe, split over the shards
    depth = 3 if tier == 'quick' else 4
    lg = LanguageGraph(copy.deepcopy(TINY_SPEC))
    fac = LanguageClassesFactory(lg)
    n = 0
    seen_keys = set()
    for k in range(1, depth + 1):
        for combo in itertools.product(range(len(TINY_OPS)), repeat=k):
            n += 1
            if n % nshards != shard:
                continue
            hist = [TINY_OPS[i] for i in combo]
            first = run_history(TINY_SPEC, hist, res, lang_graph=lg, factory=fac, probes=(k == depth))
            res.count('exhaustive-histories')
            res.case(('x',) + combo if nontrivial(hist) else None)
            if first and first[0] not in seen_keys:
                seen_keys.add(first[0])
                res.violation(first[0], first[1], {'spec': 'TINY', 'history': hist})
            elif first:
                res.viol_counts[first[0]] = res.viol_counts.get(first[0], 0) + 1
    res.notes['exhaustive'] = False
    res.notes['exhaustive_part'] = 'all %d-op histories up to length %d over the tiny universe (%d histories over all shards)' % (len(TINY_OPS), depth, n)
    res.nontrivial = {digest(list(x)) for x in res.nontrivial}
    # (2) random histories
    budget = Budget(CASES[tier] // nshards + 1, SECONDS[tier])
    cache = {}
    specs = {}
    while budget.more():
        r = rng.random()
        if r < 0.25:
            name, spec = 'corelang', corelang_spec('core')
        elif r < 0.3:
            name, spec = 'TINY', copy.deepcopy(TINY_SPEC)
        else:
            name = 'gen%d' % rng.randrange(12 if tier == 'quick' else 200)
            if name not in specs:
                specs[name] = gen_language(rng, Cfg(max_assets=5, max_assocs=5, max_depth=1))
            spec = specs[name]
            cache.setdefault(name, True)
        if len(cache) > 48:
            cache.clear()        # language graphs + generated classes are heavy: keep a bounded number alive
        if name not in cache or not isinstance(cache.get(name + '/lg'), tuple):
            try:
                lg2 = LanguageGraph(copy.deepcopy(spec))
                cache[name + '/lg'] = (lg2, LanguageClassesFactory(lg2))
            except Exception as exc:
                res.violation('build:raised-%s' % type(exc).__name__, 'language build raised %r' % (exc,), {'spec': spec, 'history': []})
                continue
        lg2, fac2 = cache[name + '/lg']
        lang = Lang(spec)
        hist = gen_history(rng, lang, rng.randint(1, 60) if rng.random() < 0.96 else rng.randint(150, 300), invalid=0.2)
        if rng.random() < 0.08:
            pre = empty_side_prefix(rng, lang)
            if pre:
                hist = pre + hist
        elif rng.random() < 0.08:
            pre = big_link_prefix(rng, lang)
            if pre:
                hist = pre + hist
        first = run_history(spec, hist, res, lang_graph=lg2, factory=fac2)
        res.case(digest([name, hist]) if nontrivial(hist) else None)
        if len(res.samples) < 3 and nontrivial(hist):
            res.sample({'language': name, 'history': hist[:14]})
        if first:
            # shrinking re-runs the history up to 80 times: only the first witness of a mechanism is shrunk (a tree
            # that violates in most cases must not turn the run into hours)
            fresh_key = first[0] not in res.viol_counts and len(res.viol_counts) < 4
            small = shrink_history(spec, hist, first[0]) if (fresh_key and not first[0].startswith('harness')) else hist
            res.violation(first[0], first[1], {'spec': 'corelang' if name == 'corelang' else spec, 'history': small, 'original_history': hist})
    if budget.timed_out():
        res.notes['time-cap-hit'] = True
    reach.stop()
    res.reach = dict(reach.counts)


def _spec_of(case):
    s = case['spec']
    if s == 'TINY':
        return copy.deepcopy(TINY_SPEC)
    if s == 'corelang':
        return corelang_spec('core')
    return s


def replay(case, res):
    spec = _spec_of(case)
    for h in (case['history'], case.get('original_history')):
        if h is None:
            continue
        first = run_history(spec, h, res)
        res.case(None)
        if first:
            res.violation(first[0], first[1], case)
            return

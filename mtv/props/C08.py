"""C08 - viability/necessity labels are the greatest fixed point, in any node order."""
from __future__ import annotations

import copy
import itertools

from ..mon import Reach, Watch
from ..result import Budget, digest, safe
from .. import agraph
from ..stream import gen_case, Built, TooExpensive
from ..gen_lang import Cfg
from ..gen_model import MCfg

META = {
    'rule': ('the real calculate_viability_and_necessity is run on live graphs and every node label is compared with a '
             'reference greatest fixed point (downward Kleene iteration of the equations of C08; a parent whose TTC is a '
             'distribution counts as necessary; for composite TTCs either reading is accepted, S8); independently the same '
             'graph is analysed under several permutations of graph.nodes and of every children / parents list and the '
             'labellings must be identical. Workloads: EXHAUSTIVE all graphs with <= 2 nodes over 21 node kinds x all edge '
             'sets incl. self-loops x all node orders; 3-node graphs over 9 node kinds x all loop-free edge sets x all 6 '
             'orders (sampled in quick, complete in thorough); random graphs with 4-40 nodes (cycles, diamonds, gated '
             'parents feeding and-nodes) x 6 sampled orders; graphs generated from random (language, model) pairs and '
             'coreLang x 3 orders of the assets; non-trivial = graph has an edge from a non-viable or unnecessary '
             'own-status node or a gated node; distinct = digest(description)'
             '; added strata: chains of 205-450 steps, attackers holding steps before the analysis, model edited / statuses set on nodes between generation and analysis, labels must be bool'),
    'assumptions': ['reference fixed point in mtv/agraph.py', 'own-status labelling of defense / exist / notExist as documented by the analyzer'],
    'shards': {'quick': 8, 'thorough': 16},
    'quotas_fixed': ['exhaustive-2-node-graph-orders'],
    'quotas': {
        'quick': {'class:chain-longer-than-200': 25, 'exhaustive-2-node-graph-orders': 3000, 'three-node-graph-orders': 800, 'random-graph-orders': 1500,
                  'generated-graph-orders': 100, 'class:cycle': 200, 'class:self-loop': 200, 'class:gated-parent-of-and': 100,
                  'class:and-mixed-parents': 100, 'labels-compared': 50000, 'class:gated-own-status-parent': 50, 're-analysis-of-the-same-graph': 50},
        'thorough': {'exhaustive-2-node-graph-orders': 14000, 'three-node-graph-orders': 270000, 'random-graph-orders': 200000,
                     'generated-graph-orders': 10000, 'labels-compared': 5000000},
    },
}
SECONDS = {'quick': 300, 'thorough': 600}
RANDOM = {'quick': 2400, 'thorough': 400000}
GENERATED = {'quick': 720, 'thorough': 40000}


class LabelNotBool(Exception):
    pass


def analyse(desc, order, child_edges=None):
    from maltoolbox.attackgraph.analyzers.apriori import calculate_viability_and_necessity
    g, objs = agraph.build(desc, order=order, child_orders=child_edges)
    if desc.get('attackers'):
        # attackers hold steps before the analysis runs: the labelling depends on the graph only
        from maltoolbox.attackgraph import Attacker
        for k, reached in enumerate(desc['attackers']):
            g.add_attacker(Attacker(name='a%d' % k, entry_points=[], reached_attack_steps=[]),
                           reached_attack_steps=[objs[i % len(objs)].id for i in reached])
    calculate_viability_and_necessity(g)
    for o in objs:
        if not isinstance(o.is_viable, bool) or not isinstance(o.is_necessary, bool):
            # a label is True or False ("viable iff", "necessary iff"); None or a dict reads as a truth value here but
            # not in `is False`, in to_dict() or after save / load
            raise LabelNotBool('node %s (%s) is labelled is_viable=%r is_necessary=%r' % (o.full_name, o.type, o.is_viable, o.is_necessary))
    return [(bool(o.is_viable), bool(o.is_necessary)) for o in objs], g, objs


def parents_of(desc):
    n = len(desc['nodes'])
    ps = [[] for _ in range(n)]
    for i, j in desc['edges']:
        if i not in ps[j]:
            ps[j].append(i)
    return ps


def classify(desc, res):
    ps = parents_of(desc)
    nodes = desc['nodes']
    nt = False
    for i, j in desc['edges']:
        if i == j:
            res.count('class:self-loop')
    # cycle detection (any)
    n = len(nodes)
    adj = [[] for _ in range(n)]
    for i, j in desc['edges']:
        adj[i].append(j)
    color = [0] * n

    def dfs(u):
        color[u] = 1
        for v in adj[u]:
            if color[v] == 1 or (color[v] == 0 and dfs(v)):
                return True
        color[u] = 2
        return False
    if any(color[u] == 0 and dfs(u) for u in range(n)):
        res.count('class:cycle')
    for j, nd in enumerate(nodes):
        if nd['type'] == 'and' and ps[j]:
            kinds = {agraph.gated_kind(nodes[p]['ttc']) for p in ps[j]}
            if 'yes' in kinds:
                res.count('class:gated-parent-of-and')
            if len(ps[j]) >= 2:
                res.count('class:and-mixed-parents')
    for i, nd in enumerate(nodes):
        if adj[i]:
            own = nd['type'] in ('defense', 'exist', 'notExist')
            if own and agraph.gated_kind(nd['ttc']) == 'yes':
                res.count('class:gated-own-status-parent')
            if own:
                nt = True
            if agraph.gated_kind(nd['ttc']) != 'no':
                nt = True
    return nt


def check_desc(desc, orders, res, count=True, shuffle_edges=None, redo=None):
    """returns (key, what) or None"""
    ps = parents_of(desc)
    ambiguous = any(agraph.gated_kind(nd['ttc']) == 'ambiguous' for nd in desc['nodes'])
    refs = [agraph.reference_labels(desc['nodes'], ps, cg) for cg in ((False, True) if ambiguous else (False,))]
    refs = [list(zip(v, c)) for v, c in refs]
    first_lab = None
    for k, order in enumerate(orders):
        edges = desc['edges']
        if shuffle_edges is not None and k > 0:
            edges = list(desc['edges'])
            shuffle_edges.shuffle(edges)
        try:
            lab, g, objs = analyse(desc, order, edges)
        except LabelNotBool as exc:
            return ('apriori:label-is-not-a-boolean', '%s (node order %s)' % (exc, list(order)))
        except RecursionError:
            return ('apriori:raised-RecursionError', 'the analysis did not terminate (recursion limit) for node order %s' % (list(order),))
        except Exception as exc:
            return ('apriori:raised-%s' % type(exc).__name__, 'analysis raised %r for node order %s' % (exc, list(order)))
        if count:
            res.count('labels-compared', len(lab))
        if lab not in refs:
            bad = [i for i in range(len(lab)) if lab[i] != refs[0][i]]
            i = bad[0]
            nd = desc['nodes'][i]
            which = 'viability' if lab[i][0] != refs[0][i][0] else 'necessity'
            sol = agraph.satisfies_equations(desc['nodes'], ps, [x[0] for x in lab], [x[1] for x in lab], False)
            return ('apriori.%s:%s-node-%s' % (which, nd['type'], 'not-greatest-solution' if sol else 'equations-violated'),
                    'node order %s: node %d (%s, parents %s) labelled (viable=%s, necessary=%s), greatest fixed point says %s; labels %s expected %s' % (
                        list(order), i, nd['type'], ps[i], lab[i][0], lab[i][1], refs[0][i], lab, refs[0]))
        if k == 0 and redo is not None:
            # analyse the SAME graph object again after defense / existence statuses were changed in place and the
            # labels reset to their defaults: the result must be the fixed point of the new statuses
            d2 = copy.deepcopy(desc)
            for i, nd in enumerate(d2['nodes']):
                if nd['type'] == 'defense' and redo.random() < 0.6:
                    nd['defense_status'] = redo.choice([0.0, 1.0, 0.5])
                elif nd['type'] in ('exist', 'notExist') and redo.random() < 0.6:
                    nd['existence_status'] = not nd['existence_status']
                objs[i].defense_status, objs[i].existence_status = nd['defense_status'], nd['existence_status']
                objs[i].is_viable, objs[i].is_necessary = True, True
            try:
                from maltoolbox.attackgraph.analyzers.apriori import calculate_viability_and_necessity
                calculate_viability_and_necessity(g)
            except Exception as exc:
                return ('apriori:raised-%s' % type(exc).__name__, 're-analysis raised %r' % (exc,))
            lab2 = [(bool(o.is_viable), bool(o.is_necessary)) for o in objs]
            refs2 = [list(zip(*agraph.reference_labels(d2['nodes'], ps, cg))) for cg in ((False, True) if ambiguous else (False,))]
            if count:
                res.count('re-analysis-of-the-same-graph')
            if lab2 not in refs2:
                i = next(i for i in range(len(lab2)) if lab2[i] != refs2[0][i])
                return ('apriori:re-analysis-of-the-same-graph-wrong',
                        'after changing statuses in place and analysing the same graph again node %d (%s) is labelled %s, fixed point %s' % (
                            i, d2['nodes'][i]['type'], lab2[i], refs2[0][i]))
        if first_lab is None:
            first_lab = lab
        elif lab != first_lab:
            return ('apriori:labels-depend-on-node-order',
                    'orders %s and %s of the same graph give different labels: %s vs %s' % (list(orders[0]), list(order), first_lab, lab))
    return None


check_desc_safe = safe(check_desc)


def run(rng, res, tier, shard, nshards):
    import maltoolbox.attackgraph.analyzers.apriori as ap
    reach = Reach()
    for fn in ('calculate_viability_and_necessity', 'propagate_viability_from_node', 'propagate_necessity_from_node',
               'evaluate_viability', 'evaluate_necessity'):
        reach.add('apriori.' + fn, getattr(ap, fn, None))
    reach.start()
    # event counters on the propagators
    w1 = Watch(ap, 'propagate_viability_from_node', before=lambda a, k: res.count('event:viability-propagations'))
    w2 = Watch(ap, 'propagate_necessity_from_node', before=lambda a, k: res.count('event:necessity-propagations'))
    budget = Budget(10 ** 9, SECONDS[tier])
    seen_keys = set()

    def report(f, desc, orders):
        if f:
            if f[0] not in seen_keys or len(seen_keys) < 6:
                seen_keys.add(f[0])
                res.violation(f[0], f[1], {'desc': desc, 'orders': [list(o) for o in orders]})
            else:
                res.viol_counts[f[0]] = res.viol_counts.get(f[0], 0) + 1

    # (1) exhaustive: <= 2 nodes, all kinds, all edge sets incl. self-loops, all orders
    n = 0
    for size in (1, 2):
        for kinds in itertools.product(agraph.FULL_KINDS, repeat=size):
            for edges in agraph.all_edge_sets(size, self_loops=True):
                n += 1
                if n % nshards != shard:
                    continue
                desc = agraph.desc_from_kinds(kinds, edges)
                orders = list(itertools.permutations(range(size)))
                f = check_desc_safe(desc, orders, res)
                res.count('exhaustive-2-node-graph-orders', len(orders))
                nt = classify(desc, res)
                res.case(digest(desc) if nt else None)
                report(f, desc, orders)
    res.notes['exhaustive'] = False
    res.notes['exhaustive_part'] = ('all %d graphs with <= 2 nodes (21 node kinds, all edge sets incl. self-loops) under all node '
                                    'orders, split over the shards' % n)
    # (2) 3 nodes, reduced kinds, loop-free edge sets, all 6 orders
    full3 = tier == 'thorough'
    n = 0
    for kinds in itertools.product(agraph.REDUCED_KINDS, repeat=3):
        for edges in agraph.all_edge_sets(3, self_loops=False):
            n += 1
            if n % nshards != shard:
                continue
            if not full3 and rng.random() > 0.012:
                continue
            if not budget.more():
                break
            desc = agraph.desc_from_kinds(kinds, edges)
            orders = list(itertools.permutations(range(3)))
            f = check_desc_safe(desc, orders, res)
            res.count('three-node-graph-orders', len(orders))
            nt = classify(desc, res)
            res.case(digest(desc) if nt else None)
            report(f, desc, orders)
    if full3:
        res.notes['exhaustive_part'] += '; all %d 3-node graphs over 9 node kinds and loop-free edge sets under all 6 orders' % n
    # (3) random larger graphs
    for _ in range(RANDOM[tier] // nshards):
        if not budget.more():
            break
        size = rng.choice([4, 4, 5, 6, 8, 10, 15, 25, 40] + ([90, 150] if rng.random() < 0.1 else []))
        desc = agraph.gen_desc(rng, size)
        if rng.random() < 0.05:
            # one long chain (205-450 steps) below a source whose label differs from the initial one, a few side edges
            size = rng.choice([205, 230, 300, 450])
            head = rng.choice([('defense', 0.0, 'none'), ('defense', 1.0, 'none'), ('exist', False, 'none'), ('notExist', True, 'none'),
                               ('exist', True, 'none'), ('defense', 0.5, 'dist')])
            kinds = [head] + [(rng.choice(['or', 'and']), None, 'none') for _ in range(size - 1)]
            edges = [[i, i + 1] for i in range(size - 1)]
            for _k in range(rng.randint(0, 3)):
                a, b = rng.randrange(size), rng.randrange(size)
                if [a, b] not in edges:
                    edges.append([a, b])
            desc = agraph.desc_from_kinds(kinds, edges)
            res.count('class:chain-longer-than-200')
        if rng.random() < 0.3:
            desc['attackers'] = [[rng.randrange(1000) for _ in range(rng.randint(1, 6))] for _ in range(rng.randint(1, 3))]
            res.count('class:attackers-hold-steps-before-the-analysis')
        orders = [list(range(size))]
        for _k in range(5):
            o = list(range(size))
            rng.shuffle(o)
            orders.append(o)
        f = check_desc_safe(desc, orders, res, shuffle_edges=rng, redo=(rng if rng.random() < 0.4 else None))
        res.count('random-graph-orders', len(orders))
        nt = classify(desc, res)
        res.case(digest(desc) if nt else None)
        if len(res.samples) < 3 and nt:
            res.sample({'nodes': [(nd['type'], nd['defense_status'], nd['existence_status'], (nd['ttc'] or {}).get('name', (nd['ttc'] or {}).get('type'))) for nd in desc['nodes']][:12],
                        'edges': desc['edges'][:30], 'orders': orders[:2]})
        report(f, desc, orders)
    # (4) graphs generated from (language, model) pairs, assets added in different orders
    for _ in range(GENERATED[tier] // nshards):
        if not budget.more():
            break
        case = gen_case(rng, Cfg(max_depth=2, max_assets=4), MCfg(attackers=0.5, max_assets=5), corelang_share=0.04)
        case['edit_after_generation'] = rng.random() < 0.4
        case['attach_before_analysis'] = rng.random() < 0.5
        f = check_generated(case, rng, res)
        res.case(digest([case['spec'], case['amodel']]))
        if f:
            res.violation(f[0], f[1], {'case': case})
    w1.remove()
    w2.remove()
    if budget.timed_out():
        res.notes['time-cap-hit'] = True
    reach.stop()
    res.reach = dict(reach.counts)


def _check_generated(case, rng, res, count=True):
    """same model with the assets added in different orders: labels keyed by full name must agree and equal the GFP"""
    from maltoolbox.attackgraph.analyzers.apriori import calculate_viability_and_necessity
    labs = []
    for k in range(3):
        c = copy.deepcopy(case)
        if k:
            rng.shuffle(c['amodel']['assets'])
        try:
            built = Built(c, attackers=True, explicit_ids=True)
            g = built.attack_graph()
        except TooExpensive:
            res.count('skipped:too-expensive')
            return None
        except Exception as exc:
            return ('build:raised-%s' % type(exc).__name__, 'building a generated case raised %r' % (exc,))
        nodes = list(g.nodes)
        idx = {id(n): i for i, n in enumerate(nodes)}
        if k == 1 and case.get('edit_after_generation'):
            # the model is edited after the graph was generated: the analysis labels the GRAPH (node.defense_status)
            for a in built.model.assets:
                for dname in built.lang.defenses(str(a.type)):
                    setattr(a, dname, 1.0 - float(getattr(a, dname)) if float(getattr(a, dname)) in (0.0, 1.0) else 1.0)
            if count:
                res.count('class:model-edited-between-generation-and-analysis')
            built.attack_graph() if rng.random() < 0.3 else None      # a newer graph of the edited model exists as well
        if k == 2 and case.get('edit_after_generation'):
            # statuses set on the nodes directly (the model says something else)
            for n in nodes:
                if n.type == 'defense' and rng.random() < 0.5:
                    n.defense_status = rng.choice([0.0, 1.0, 0.5])
            if count:
                res.count('class:node-status-set-directly-on-a-generated-graph')
        if case.get('attach_before_analysis'):
            try:
                g.attach_attackers()
            except Exception:
                pass
        desc_nodes = [{'type': n.type, 'defense_status': None if n.defense_status is None else float(n.defense_status),
                       'existence_status': n.existence_status, 'ttc': n.ttc} for n in nodes]
        ps = [[idx[id(p)] for p in {id(p): p for p in n.parents}.values()] for n in nodes]
        try:
            calculate_viability_and_necessity(g)
        except Exception as exc:
            return ('apriori:raised-%s' % type(exc).__name__, 'analysis raised %r on a generated graph' % (exc,))
        lab = [(bool(n.is_viable), bool(n.is_necessary)) for n in nodes]
        ambiguous = any(agraph.gated_kind(nd['ttc']) == 'ambiguous' for nd in desc_nodes)
        refs = [list(zip(*agraph.reference_labels(desc_nodes, ps, cg))) for cg in ((False, True) if ambiguous else (False,))]
        if count:
            res.count('generated-graph-orders')
            res.count('labels-compared', len(lab))
        if lab not in refs:
            i = next(i for i in range(len(lab)) if lab[i] != refs[0][i])
            which = 'viability' if lab[i][0] != refs[0][i][0] else 'necessity'
            return ('apriori.%s:%s-node-generated-graph' % (which, nodes[i].type),
                    'generated graph: node %s labelled %s, greatest fixed point says %s' % (nodes[i].full_name, lab[i], refs[0][i]))
        labs.append({n.full_name: l for n, l in zip(nodes, lab)})
    if not case.get('edit_after_generation') and (labs[0] != labs[1] or labs[0] != labs[2]):
        d = [k for k in labs[0] if labs[0][k] != labs[1].get(k) or labs[0][k] != labs[2].get(k)]
        return ('apriori:labels-depend-on-asset-order', 'labels of %s depend on the order the assets were added' % d[:3])
    return None


check_generated = safe(_check_generated)


def replay(case, res):
    import random
    if 'desc' in case:
        f = check_desc_safe(case['desc'], case['orders'], res)
    else:
        f = check_generated(case['case'], random.Random(0), res)
    res.case(None)
    if f:
        res.violation(f[0], f[1], case)

"""C01 - attack-graph edges are exactly the MAL meaning of the step expressions.

Monitors (DESIGN 5/C01):
 (1) end-to-end: children of every node inside the reference interval,
     parents exactly the converse (identity based);
 (2) per-call oracle on the real recursive evaluator (every nested call is an
     event compared with the reference on that sub-expression from that input
     set) + direct calls of the real evaluator on every sub-expression with
     the reference's singleton inputs; same for Model neighbours;
 (3) termination as bounded progress: call budget / recursion limit / CPU
     timer; exhaustion is a violation only when the reference sees a cycle of a
     transitive operand, otherwise the case is inconclusive.
"""
from __future__ import annotations

import sys

from ..mon import Watch, Reach
from ..ref_sem import (Lang, AModel, eval_expr, eval_set, final_step,
                       has_cycle_through, neighbours)
from ..result import Budget, digest, safe
from ..stream import gen_case, Built, shrink_case, TooExpensive, cpu_budget
from ..gen_lang import Cfg
from ..gen_model import MCfg

META = {
    'rule': ('random well-formed language (type-directed expressions, all operators) x random valid model '
             '(empty/shared/many-to-many/cyclic/self links) + coreLang with random models; every nested call of the '
             'real evaluator and every direct call on a sub-expression is compared with an independent interval '
             'semantics; a case is non-trivial when at least one non-field operator was evaluated on a non-empty '
             'input; distinct = digest of (language spec, abstract model)'
             '; added strata: shared strata (DESIGN 11.5): large languages / models, names nested in one another, (f[T])* operands, histories with a shared association instance one member of which leaves after a mid-history generation, the interference layer (other language graphs, refused calls, interrupted and twin generations), DEBUG log level'
             '; round 7: the language graph is built through one of four routes (dict, .mar archive at one path, saved specification, MAL source through the compiler)'),
    'assumptions': [
        'reference semantics in mtv/ref_sem.py is the MAL meaning (collect is element-wise; e* within [closure+, closure*])',
        'generated languages are inside what malc accepts (DESIGN 2.1)',
        'python-jsonschema-objects is trusted as a library',
    ],
    'shards': {'quick': 8, 'thorough': 16},
    'quotas': {
        'quick': {'op:union': 1, 'op:intersection': 1, 'op:difference': 1, 'op:collect': 1, 'op:subType': 1,
                  'op:variable': 1, 'op:transitive': 1, 'class:setop-multi-source': 1, 'class:transitive-cycle': 1,
                  'class:self-link': 1, 'class:subType-mixed': 1, 'class:variable-on-ancestor': 1,
                  'class:setop-lhs-empty': 1, 'class:setop-overlap': 1, 'edges-compared': 100,
                  'class:model-reached-through-edit-history': 20},
        'thorough': {'op:union': 100, 'op:intersection': 100, 'op:difference': 100, 'op:collect': 100,
                     'op:subType': 100, 'op:variable': 100, 'op:transitive': 100, 'class:setop-multi-source': 20,
                     'class:transitive-cycle': 20, 'class:self-link': 20, 'class:subType-mixed': 20,
                     'class:variable-on-ancestor': 20, 'class:setop-lhs-empty': 20, 'class:setop-overlap': 20,
                     'edges-compared': 10000},
    },
}

CASES = {'quick': 1600, 'thorough': 100000}
SECONDS = {'quick': 300, 'thorough': 600}
CPU_BUDGET_S = 6.0


WRAPPER_EVENTS = [0]      # every call that went through the evaluator wrapper in this process


class Unbounded(BaseException):
    """sound sign of non-termination (see CaseMonitor.repeat)"""


class CaseMonitor:
    """all C01 monitors for one case"""

    def __init__(self, case, res):
        self.case, self.res = case, res
        self.first = None        # first divergence (key, what)
        self.calls = 0
        self.nontrivial = False
        self.depth = 0
        self.frames = {}         # caller frame -> {call signature: count}
        self.limit = 8

    def repeat(self, sig):
        """Sound sign of non-termination: one activation (frame) of repository
        code issues the same evaluator / neighbours call more often than any
        loop that makes progress could (a visited-set walk expands each asset
        once, a naive fixpoint iteration at most n+1 times).  The frame object
        itself is the key (kept alive until the outermost call returns, so its
        address cannot be reused)."""
        fr = sys._getframe(3)
        if '/maltoolbox/' not in fr.f_code.co_filename:
            return
        # only activations that evaluate a transitive expression: elsewhere the
        # evaluator legitimately repeats calls (its lists keep duplicates and
        # a subType operand is re-evaluated once per target)
        se = fr.f_locals.get('step_expression')
        if not isinstance(se, dict) or se.get('type') != 'transitive':
            return
        tab = self.frames.setdefault(fr, {})
        n = tab.get(sig, 0) + 1
        tab[sig] = n
        if n > self.limit:
            raise Unbounded('the same call %r was issued %d times by one activation of %s' % (sig[:2], n, fr.f_code.co_name))

    def enter(self):
        self.depth += 1

    def leave(self):
        self.depth -= 1
        if self.depth <= 0:
            self.depth = 0
            self.frames.clear()

    def diverge(self, key, what):
        if self.first is None:
            self.first = (key, what)

    # --- per-call oracle ---------------------------------------------------
    def install(self, built):
        import maltoolbox.attackgraph.attackgraph as agmod
        from maltoolbox.model import Model
        self.built = built
        self.rev = {id(o): aid for aid, o in built.objs.items()}
        self.limit = len(built.am.assets) + 3
        mon = self

        def before(args, kwargs):
            mon.calls += 1
            WRAPPER_EVENTS[0] += 1
            targets = args[2] if len(args) > 2 else kwargs['target_assets']
            expr = args[3] if len(args) > 3 else kwargs['step_expression']
            ins = [mon.rev.get(id(a)) for a in targets]
            mon.enter()
            if ins:
                mon.repeat(('E', id(expr), frozenset(i for i in ins if i is not None)))
            return (ins, expr)

        def on_raise(token, args, kwargs, exc):
            mon.leave()

        def after(token, args, kwargs, result):
            mon.leave()
            if token is None:
                return
            ins, expr = token
            if None in ins:
                mon.diverge('attackgraph.eval:foreign-asset-in-input', 'input contains an object that is not a model asset')
                return
            out_assets, step = result
            outs = [mon.rev.get(id(a)) for a in out_assets]
            mon.res.count('percall-compared')
            if None in outs:
                mon.diverge('attackgraph.eval:%s:foreign-asset-in-result' % expr['type'], 'result contains a non-model object')
                return
            lo, hi = eval_set(built.lang, built.am, ins, expr)
            got = set(outs)
            if ins and expr['type'] not in ('field', 'attackStep'):
                mon.nontrivial = True
            if not (lo <= got <= hi):
                cls = ':multi-source' if len(set(ins)) > 1 else ''
                mon.diverge('attackgraph.eval:%s%s' % (expr['type'], cls),
                            'evaluator(%s) from assets %s returned %s, reference bounds [%s, %s]; expr=%s' % (
                                expr['type'], sorted(set(ins)), sorted(got), sorted(lo), sorted(hi), _short(expr)))
                return
            want = final_step(expr)
            if got and want is not None and step != want:
                mon.diverge('attackgraph.eval:%s:wrong-step-name' % expr['type'],
                            'step name %r, expected %r; expr=%s' % (step, want, _short(expr)))

        self.w_eval = Watch(agmod, '_process_step_expression', before=before, after=after, on_raise=on_raise)

        def nb_before(args, kwargs):
            mon.calls += 1
            asset = args[1] if len(args) > 1 else kwargs['asset']
            fname = args[2] if len(args) > 2 else kwargs['field_name']
            return None

        def nb_after(token, args, kwargs, result):
            asset = args[1] if len(args) > 1 else kwargs['asset']
            fname = args[2] if len(args) > 2 else kwargs['field_name']
            x = mon.rev.get(id(asset))
            if x is None:
                return
            want = neighbours(built.lang, built.am, x, fname)
            got = [mon.rev.get(id(a)) for a in result]
            mon.res.count('neighbours-compared')
            if set(got) != want:
                selfl = any(x in l['left'] and x in l['right'] for l in built.am.links)
                mon.diverge('model.neighbours:%s' % ('self-link-direction' if selfl else 'wrong-set'),
                            'neighbours(asset %s, %s) = %s, expected %s' % (x, fname, sorted(g for g in got if g is not None), sorted(want)))

        self.w_nb = Watch(Model, 'get_associated_assets_by_field_name', before=nb_before, after=nb_after)

    def uninstall(self):
        self.w_eval.remove()
        self.w_nb.remove()
        for w in (self.w_eval, self.w_nb):
            for e in w.errors:
                self.res.inconc('monitor error: %s' % (e,))


def _short(e, n=300):
    import json
    s = json.dumps(e, separators=(',', ':'))
    return s if len(s) <= n else s[:n] + '...'


def _subexpr_walk(lang, am, x, e, visit, seen, cap):
    """enumerate (asset, sub-expression) pairs the reference evaluates"""
    key = (x, id(e))
    if key in seen or len(seen) >= cap:
        return
    seen.add(key)
    visit(x, e)
    k = e['type']
    if k == 'collect':
        _subexpr_walk(lang, am, x, e['lhs'], visit, seen, cap)
        for a in sorted(eval_expr(lang, am, x, e['lhs'])[1]):
            _subexpr_walk(lang, am, a, e['rhs'], visit, seen, cap)
    elif k in ('union', 'intersection', 'difference'):
        _subexpr_walk(lang, am, x, e['lhs'], visit, seen, cap)
        _subexpr_walk(lang, am, x, e['rhs'], visit, seen, cap)
    elif k == 'subType':
        _subexpr_walk(lang, am, x, e['stepExpression'], visit, seen, cap)
    elif k == 'transitive':
        for a in sorted(eval_expr(lang, am, x, e)[1]):
            _subexpr_walk(lang, am, a, e['stepExpression'], visit, seen, cap)
    elif k == 'variable':
        v = lang.variable(am.asset(x)['type'], e['name'])
        if v:
            _subexpr_walk(lang, am, x, v[1], visit, seen, cap)


def classify_operands(lang, am, x, e, res):
    """operand-class counters for the evidence (per operator x operand class)"""
    k = e['type']
    res.count('op:' + k)
    if k == 'field' and x in neighbours(lang, am, x, e['name']):
        res.count('class:self-link')
    if k in ('union', 'intersection', 'difference'):
        l = eval_expr(lang, am, x, e['lhs'])[1]
        r = eval_expr(lang, am, x, e['rhs'])[1]
        if not l:
            res.count('class:setop-lhs-empty')
        if not r:
            res.count('class:setop-rhs-empty')
        if l and r:
            res.count('class:setop-overlap' if l & r else 'class:setop-disjoint')
            if l == r:
                res.count('class:setop-equal')
    elif k == 'subType':
        inner = eval_expr(lang, am, x, e['stepExpression'])[1]
        kept = eval_expr(lang, am, x, e)[1]
        if kept and kept != inner:
            res.count('class:subType-mixed')
    elif k == 'variable':
        v = lang.variable(am.asset(x)['type'], e['name'])
        if v and v[0] != am.asset(x)['type']:
            res.count('class:variable-on-ancestor')
    elif k == 'transitive':
        lo, hi = eval_expr(lang, am, x, e)
        if x in lo:
            res.count('class:transitive-cycle')
        if len(lo) >= 2:
            res.count('class:transitive-chain')
    elif k == 'collect':
        l = eval_expr(lang, am, x, e['lhs'])[1]
        if len(l) >= 2:
            res.count('class:collect-multi-source')
            if e['rhs']['type'] in ('union', 'intersection', 'difference'):
                res.count('class:setop-multi-source')
            elif e['rhs']['type'] == 'collect' and e['rhs']['lhs']['type'] in ('union', 'intersection', 'difference'):
                res.count('class:setop-multi-source')


def _check_case(case, res, direct_cap=250, count=True):
    """run every C01 monitor on one case; returns (key, what) of the first
    divergence or None; may register an inconclusive reason"""
    import maltoolbox.attackgraph.attackgraph as agmod
    try:
        if 'history' in case:
            from ..shadow import Divergence
            def _tick(a, k):
                WRAPPER_EVENTS[0] += 1
            w0 = Watch(agmod, '_process_step_expression', before=_tick)     # the generation in mid-history is only counted
            try:
                built = Built.from_history(case)
            except Divergence:
                return None        # the history itself misbehaves: C05's business
            finally:
                w0.remove()
            if count:
                res.count('class:model-reached-through-edit-history')
        else:
            def _tick2(a, k):
                WRAPPER_EVENTS[0] += 1
            w0 = Watch(agmod, '_process_step_expression', before=_tick2)    # generations of the interference layer are only counted
            try:
                built = Built(case, attackers=False)
            finally:
                w0.remove()
    except Exception as exc:
        # a well-formed language / valid model must be accepted
        return ('build:raised-%s' % type(exc).__name__,
                'building the language graph / classes / model for a well-formed case raised %r' % (exc,))
    lang, am = built.lang, built.am
    mon = CaseMonitor(case, res)
    mon.install(built)
    graph = None
    unbounded = None

    def any_cycle():
        for a in am.assets:
            for s in lang.steps(a['type']).values():
                exprs = list((s['reaches'] or {}).get('stepExpressions', []))
                if s['requires']:
                    exprs += s['requires']['stepExpressions']
                for e in exprs:
                    if has_cycle_through(lang, am, a['id'], e):
                        return True
        return False

    try:
        try:
            graph = built.attack_graph(cpu_s=CPU_BUDGET_S)
        except RecursionError:
            # legitimate recursion depth is bounded by expression depth + number of assets
            unbounded = 'the recursion limit (%d frames) was reached' % sys.getrecursionlimit()
        except Unbounded as exc:
            unbounded = str(exc)
        except TooExpensive:
            # ambiguous (the evaluator keeps duplicates, so some cases are just very slow): never a verdict
            if count:
                res.count('skipped:too-expensive')
            return None
        except Exception as exc:
            mon.diverge('attackgraph.generate:raised-%s' % type(exc).__name__,
                        'generation raised %r on a valid language/model' % (exc,))
        if unbounded:
            key = ('attackgraph.eval:transitive-nontermination-on-cycle' if any_cycle()
                   else 'attackgraph.eval:unbounded-evaluation')
            mon.first = mon.first or (key, 'generation does not terminate on a finite model: %s' % unbounded)

        if graph is not None:
            _end_to_end(built, graph, mon, res, count)
            # direct calls with the reference's singleton inputs
            seen = set()

            def visit(x, e):
                if count:
                    classify_operands(lang, am, x, e, res)
                if e['type'] == 'attackStep':
                    return
                try:
                    agmod._process_step_expression(built.lang_graph, built.model, [built.objs[x]], e)
                    res.count('direct-calls')
                except (RecursionError, Unbounded) as exc:
                    mon.depth = 0
                    mon.frames.clear()
                    mon.diverge('attackgraph.eval:transitive-nontermination-on-cycle' if has_cycle_through(lang, am, x, e)
                                else 'attackgraph.eval:unbounded-evaluation',
                                'direct evaluation from asset %s does not terminate (%r): %s' % (x, exc, _short(e)))
                except Exception as exc:
                    mon.depth = 0
                    mon.frames.clear()
                    mon.diverge('attackgraph.eval:%s:raised-%s' % (e['type'], type(exc).__name__),
                                'evaluator raised %r from asset %s on %s' % (exc, x, _short(e)))

            try:
                with cpu_budget(CPU_BUDGET_S):
                    for a in am.assets:
                        for s in lang.steps(a['type']).values():
                            exprs = list((s['reaches'] or {}).get('stepExpressions', []))
                            if s['requires']:
                                exprs += s['requires']['stepExpressions']
                            for e in exprs:
                                _subexpr_walk(lang, am, a['id'], e, visit, seen, direct_cap)
            except TooExpensive:
                if count:
                    res.count('skipped:direct-calls-too-expensive')
    finally:
        mon.uninstall()
    if mon.nontrivial:
        res.notes['_nt'] = True
    else:
        res.notes['_nt'] = False
    return mon.first


check_case = safe(_check_case)


def _end_to_end(built, graph, mon, res, count):
    lang, am = built.lang, built.am
    rev = mon.rev
    present = {id(n) for n in graph.nodes}
    by_key = {}
    for n in graph.nodes:
        x = rev.get(id(n.asset))
        by_key[(x, n.name)] = n
    for n in graph.nodes:
        x = rev.get(id(n.asset))
        if x is None:
            mon.diverge('attackgraph.nodes:foreign-asset', 'node %s bound to a non-model asset' % n.name)
            continue
        steps = lang.steps(am.asset(x)['type'])
        s = steps.get(n.name)
        if s is None:
            continue   # node set is C02's business
        lo, hi = set(), set()
        for e in (s['reaches'] or {}).get('stepExpressions', []):
            a, b = eval_expr(lang, am, x, e)
            t = final_step(e)
            lo |= {(y, t) for y in a}
            hi |= {(y, t) for y in b}
        got = set()
        for c in n.children:
            if id(c) not in present:
                mon.diverge('attackgraph.edges:child-not-in-graph', 'child %s of %s is not in graph.nodes' % (c.name, n.name))
            got.add((rev.get(id(c.asset)), c.name))
        if count:
            res.count('edges-compared', len(got))
            res.count('nodes-compared')
            if len(got) != len(n.children):
                res.count('duplicate-child-entries', len(n.children) - len(got))
        if not (lo <= got <= hi):
            mon.diverge('attackgraph.edges:children-outside-bounds',
                        'node (asset %s, %s): children %s, reference bounds lo=%s hi=%s' % (
                            x, n.name, sorted(got, key=str), sorted(lo, key=str), sorted(hi, key=str)))
        # converse by identity
        for c in n.children:
            if not any(p is n for p in c.parents):
                mon.diverge('attackgraph.edges:converse-parent-missing',
                            'node %s lists child %s which does not list it as parent' % (n.full_name, c.full_name))
        for p in n.parents:
            if not any(c is n for c in p.children):
                mon.diverge('attackgraph.edges:converse-child-missing',
                            'node %s lists parent %s which does not list it as child' % (n.full_name, p.full_name))
            if id(p) not in present:
                mon.diverge('attackgraph.edges:parent-not-in-graph', 'parent of %s not in graph.nodes' % n.full_name)
        if len({id(p) for p in n.parents}) != len({id(c2) for c2 in n.parents}):
            pass


def lcfg_for(rng):
    r = rng.random()
    if r < 0.15:
        return Cfg(max_assets=3, max_assocs=3, max_depth=2)
    if r < 0.3:
        return Cfg(max_depth=4, inherit_bias=0.8)
    if r < 0.5:
        return Cfg(transitive_nonfield=0.6, max_depth=3)
    return Cfg()


def run(rng, res, tier, shard, nshards):
    import maltoolbox.attackgraph.attackgraph as agmod
    from maltoolbox.model import Model
    from maltoolbox.language import LanguageGraph
    reach = Reach()
    reach.add('attackgraph._process_step_expression', agmod._process_step_expression)
    reach.add('AttackGraph._generate_graph', agmod.AttackGraph._generate_graph)
    reach.add('Model.get_associated_assets_by_field_name', Model.get_associated_assets_by_field_name)
    reach.add('LanguageGraph._get_variable_for_asset_type_by_name', LanguageGraph._get_variable_for_asset_type_by_name)
    reach.start()
    budget = Budget(CASES[tier] // nshards + 1, SECONDS[tier])
    while budget.more():
        case = gen_case(rng, lcfg_for(rng), MCfg(), corelang_share=0.04)
        if case['source'] == 'generated' and rng.random() < 0.15:
            # the same language, but the model is reached through adds AND removals
            from ..shadow import gen_history
            case = {'source': 'history', 'spec': case['spec'], 'amodel': {'assets': [], 'links': [], 'attackers': []},
                    'history': gen_history(rng, Lang(case['spec']), rng.randint(5, 40), invalid=0.0, attackers=False,
                                           names=['srv', 'db', 'n', 'x', 'y', None])}
            # more multi-member fields, assets leaving associations that survive, and a generation in between
            h = case['history']
            for _ in range(rng.randint(0, 3)):
                h.insert(rng.randrange(len(h) + 1), ['add_assoc', rng.randrange(64), [['live', rng.randrange(64)], ['live', rng.randrange(64)]],
                                                      [['live', rng.randrange(64)], ['live', rng.randrange(64)]][:rng.randint(1, 2)]])
            cut = rng.randrange(len(h) + 1)
            if rng.random() < 0.5:
                # after the cut nothing is linked or unlinked as a whole: assets only leave associations
                from ..shadow import surviving_departures, shared_instance_ops
                pre, post = shared_instance_ops(rng, case['spec'], h)
                h.extend(pre)
                cut = len(h)
                h.extend(post)                                                # a departure that is certain to apply
                h.extend(surviving_departures(rng, case['spec'], h, 2))
                for _ in range(rng.randint(1, 5)):
                    h.append(['remove_from_assoc', ['live', rng.randrange(64)], ['live', rng.randrange(64)]])
            else:
                for _ in range(rng.randint(1, 3)):
                    h.insert(rng.randrange(cut, len(h) + 1), ['remove_from_assoc', ['live', rng.randrange(64)], ['live', rng.randrange(64)]])
            case['generate_after'] = cut if rng.random() < 0.8 else None
        first = check_case(case, res)
        nt = res.notes.pop('_nt', False)
        res.case(digest([case['spec'], case['amodel'], case.get('history'), case.get('generate_after')]) if nt else None)
        if res.evaluations <= 2 and case['source'] == 'generated':
            res.sample({'language_assets': [a['name'] + ('<' + a['superAsset'] if a['superAsset'] else '') for a in case['spec']['assets']],
                        'a_reaches_expression': _first_expr(case['spec']),
                        'model': {'assets': [(a['id'], a['type']) for a in case['amodel']['assets']],
                                  'links': [(l['assoc'], l['left'], l['right']) for l in case['amodel']['links']]}})
        if first:
            key, what = first

            def still(c, key=key):
                from ..result import Result
                r2 = Result('C01', 'shrink', 0, 0)
                f2 = check_case(c, r2, direct_cap=120, count=False)
                return f2 is not None and f2[0] == key
            if 'history' in case or key in res.viol_counts or len(res.viol_counts) >= 4:
                small, runs = case, 0          # (only the first witness of a mechanism is shrunk)
            else:
                small, runs = shrink_case(case, still, max_runs=60)
            res.violation(key, what, {'minimised': small, 'original': case, 'shrink_runs': runs})
    if budget.timed_out():
        res.notes['time-cap-hit'] = True
    reach.stop()
    res.reach = dict(reach.counts)
    # binding bypass: every entry of the evaluator's code object must have gone through the wrapper
    entries = reach.counts.get('attackgraph._process_step_expression', 0)
    events = WRAPPER_EVENTS[0]
    res.count('wrapper-events:evaluator', events)
    if entries > events:
        res.inconc('%d entries of the evaluator but only %d wrapper events: calls went round the monitor' % (entries, events))


def _first_expr(spec):
    for a in spec['assets']:
        for s in a['attackSteps']:
            if s['reaches']:
                for e in s['reaches']['stepExpressions']:
                    if e['type'] != 'attackStep':
                        return {'asset': a['name'], 'step': s['name'], 'expr': e}
    return None


def replay(case, res):
    c = case.get('minimised', case)
    first = check_case(c, res)
    res.case(None)
    if first:
        res.violation(first[0], first[1], case)
    elif 'original' in case:
        first = check_case(case['original'], res)
        if first:
            res.violation(first[0], first[1], case)

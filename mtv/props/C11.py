"""C11 - attackers and nodes always agree on what is compromised."""
from __future__ import annotations

import copy
import itertools
import json

from ..mon import Reach
from ..result import Budget, digest, safe
from .. import agraph
from ..stream import gen_case, Built, TooExpensive
from ..gen_lang import Cfg
from ..gen_model import MCfg
from ..ref_sem import Lang

META = {
    'rule': ('histories of compromise / undo_compromise from the attacker side and from the node side, add_attacker (with and '
             'without initial reached steps, also for attackers that already compromised nodes before being added), '
             'remove_attacker and attach_attackers over graphs with 1-4 attackers and 3-200 nodes; after EVERY operation the '
             'relation symmetry (n in a.reached <=> a in n.compromised_by, by identity, no duplicates, over present AND removed '
             'attackers) is evaluated; a repeated compromise / an undo of something not compromised must change nothing '
             '(before/after comparison of both lists); after remove_attacker no node may list the attacker; attach_attackers '
             'is compared with the abstract model: one graph attacker per model attacker whose entry points and reached steps '
             'are exactly the existing nodes named by the model (overlapping entry points, unknown steps). Bounded-exhaustive: '
             'all sequences of length <= 4 (thorough 5) of 14 operations over 2 attackers x 3 nodes; non-trivial = history with '
             'a removal or undo after a compromise; distinct = digest(start, history)'
             '; added strata: registrations that are refused (unknown step after known ones, id in use) followed by valid operations; attach again after a missing entry node came back through regenerate_graph'
             '; round 7: removals through the pruning analyzer; node objects that left the graph may only list attackers that list them'),
    'assumptions': ['identity-based comparison; attackers are told apart as objects, not by name or id'],
    'shards': {'quick': 8, 'thorough': 16},
    'quotas': {
        'quick': {'steps-checked': 50000, 'op:compromise': 5000, 'op:undo': 2000, 'op:remove_attacker': 1000,
                  'class:double-compromise': 500, 'class:undo-not-compromised': 500, 'class:remove-with-many-reached': 100,
                  'class:remove-with-zero-reached': 50, 'attach-compared': 80, 'class:attach-overlapping-entry-points': 50,
                  'class:attach-unknown-step': 20, 'class:compromise-before-add': 100, 'exhaustive-histories': 10000,
                  'attach-variant:second-graph': 12, 'attach-variant:attach-again-after-regenerate': 12, 'class:first-attach-with-a-missing-entry-node': 10, 'class:refused-add_attacker': 300, 'attach-variant:copy': 12, 'attach-variant:entry-node-removed': 12,
                  'class:add_attacker-entry-points-only': 50, 'class:add_attacker-all-defaults': 50},
        'thorough': {'steps-checked': 5000000, 'op:remove_attacker': 100000, 'attach-compared': 20000, 'exhaustive-histories': 400000},
    },
}
CASES = {'quick': 2000, 'thorough': 150000}
ATTACH = {'quick': 400, 'thorough': 40000}
SECONDS = {'quick': 300, 'thorough': 600}

TINY_OPS = [['c', 0, 0], ['c', 0, 1], ['c', 1, 0], ['c', 1, 2], ['u', 0, 0], ['u', 1, 0], ['nc', 1, 0], ['nu', 0, 1],
            ['add', 0, []], ['add', 1, [0, 1]], ['rm', 0], ['rm', 1], ['c', 0, 2], ['u', 0, 2]]


def lists(a_objs, nodes):
    return ([[id(n) for n in a.reached_attack_steps] for a in a_objs], [[id(a) for a in n.compromised_by] for n in nodes],
            [[id(n) for n in a.entry_points] for a in a_objs])


def run_history(desc_n, n_att, history, res, count=True):
    from maltoolbox.attackgraph import Attacker
    desc = agraph.desc_from_kinds([('or', None, 'none')] * desc_n, [[i, (i + 1) % desc_n] for i in range(desc_n)])
    g, nodes = agraph.build(desc)
    atts = [Attacker(name='att%d' % i, entry_points=[], reached_attack_steps=[]) for i in range(n_att)]
    added = [False] * n_att
    ever = list(atts)
    removed = []

    def cnt(name, k=1):
        if count:
            res.count(name, k)
    for step, op in enumerate(history):
        kind = op[0]
        where = 'step %d %s' % (step, json.dumps(op))
        try:
            if kind in ('c', 'u', 'nc', 'nu'):
                a = atts[op[1] % n_att]
                n = nodes[op[2] % desc_n]
                if not any(n is x for x in g.nodes):
                    continue
                was = any(x is a for x in n.compromised_by)
                before = lists(atts, nodes)
                if not added[op[1] % n_att]:
                    cnt('class:compromise-before-add')
                if kind == 'c':
                    a.compromise(n)
                elif kind == 'nc':
                    n.compromise(a)
                elif kind == 'u':
                    a.undo_compromise(n)
                else:
                    n.undo_compromise(a)
                cnt('op:compromise' if kind in ('c', 'nc') else 'op:undo')
                after = lists(atts, nodes)
                if kind in ('c', 'nc'):
                    if was:
                        cnt('class:double-compromise')
                        if after != before:
                            return ('compromise:repeated-compromise-changes-state', '%s: compromising an already compromised node changed the lists' % where)
                    elif not (any(x is a for x in n.compromised_by) and any(x is n for x in a.reached_attack_steps)):
                        return ('compromise:compromise-has-no-effect', '%s: after compromise the node / attacker do not list each other' % where)
                else:
                    if not was:
                        cnt('class:undo-not-compromised')
                        if after != before:
                            return ('compromise:undo-of-uncompromised-changes-state', '%s: undoing something not compromised changed the lists' % where)
                    elif any(x is a for x in n.compromised_by) or any(x is n for x in a.reached_attack_steps):
                        return ('compromise:undo-has-no-effect', '%s: after undo the node / attacker still list each other' % where)
            elif kind == 'add':
                i = op[1] % n_att
                if added[i]:
                    continue
                ids = [nodes[j % desc_n].id for j in op[2] if any(nodes[j % desc_n] is x for x in g.nodes)]
                before_r = [id(n) for n in atts[i].reached_attack_steps]
                if not ids and len(op) > 3 and op[3]:
                    eids = [nodes[j % desc_n].id for j in op[3] if any(nodes[j % desc_n] is x for x in g.nodes)]
                    g.add_attacker(atts[i], entry_points=eids)        # reached steps left to the default
                    cnt('class:add_attacker-entry-points-only')
                elif not ids:
                    g.add_attacker(atts[i])                            # all defaults
                    cnt('class:add_attacker-all-defaults')
                else:
                    g.add_attacker(atts[i], reached_attack_steps=ids)
                added[i] = True
                cnt('op:add_attacker')
                if not ids and [id(n) for n in atts[i].reached_attack_steps] != before_r:
                    return ('compromise:add_attacker-without-reached-steps-compromises',
                            '%s: an attacker added without reached steps now has reached %s' % (where, [n.full_name for n in atts[i].reached_attack_steps]))
                for j in ids:
                    n = g.get_node_by_id(j)
                    if not any(x is atts[i] for x in n.compromised_by):
                        return ('compromise:add_attacker-reached-not-compromised', '%s: node %s does not list the added attacker' % (where, j))
            elif kind == 'addbad':
                # a registration that is refused: a reached step that does not exist (after some that do), or an
                # attacker id that is in use.  Whatever it leaves behind must be symmetric; the history goes on.
                i = op[1] % n_att
                if added[i]:
                    continue
                ids = [nodes[j % desc_n].id for j in op[2] if any(nodes[j % desc_n] is x for x in g.nodes)]
                try:
                    if op[3] == 'no-such-node' or not g.attackers:
                        g.add_attacker(atts[i], reached_attack_steps=ids + [10 ** 6 + 7])
                    else:
                        g.add_attacker(atts[i], attacker_id=g.attackers[0].id, reached_attack_steps=ids)
                except Exception:
                    cnt('class:refused-add_attacker')
                else:
                    if any(x is atts[i] for x in g.attackers):
                        added[i] = True
                if any(x is atts[i] for x in g.attackers) != added[i]:
                    return ('compromise:refused-add_attacker-registered-the-attacker', '%s: the call raised but the attacker is in graph.attackers' % where)
            elif kind == 'rm':
                i = op[1] % n_att
                if not added[i]:
                    continue
                k = len(atts[i].reached_attack_steps)
                cnt('class:remove-with-%s-reached' % ('zero' if k == 0 else ('one' if k == 1 else 'many')))
                g.remove_attacker(atts[i])
                added[i] = False
                cnt('op:remove_attacker')
                for n in nodes:
                    if any(x is atts[i] for x in n.compromised_by):
                        return ('compromise:removed-attacker-still-compromises',
                                '%s: node %s is still compromised by the removed attacker (it had %d reached steps)' % (where, n.full_name, k))
                # a fresh object takes the slot so the history can go on
                removed.append(atts[i])
                atts[i] = Attacker(name='att%d' % i, entry_points=[], reached_attack_steps=[])
                ever.append(atts[i])
            elif kind == 'rmnode':
                n = nodes[op[1] % desc_n]
                if any(n is x for x in g.nodes) and len(g.nodes) > 1:
                    if op[1] % 3 == 0 and n.type in ('or', 'and'):
                        # the node leaves through the analyzer: it is labelled non-viable and the graph is pruned
                        from maltoolbox.attackgraph.analyzers.apriori import prune_unviable_and_unnecessary_nodes
                        n.is_viable = False
                        prune_unviable_and_unnecessary_nodes(g)
                        cnt('op:pruned-while-compromised' if n.compromised_by or not any(n is x for x in g.nodes) else 'op:prune')
                    else:
                        g.remove_node(n)
        except Exception as exc:
            return ('compromise:%s-raised-%s' % (kind, type(exc).__name__), '%s raised %r' % (where, exc))
        f = agraph.check_compromise_symmetry(g, ever, removed, ever_nodes=nodes)
        cnt('steps-checked')
        if f:
            return (f[0], '%s: %s' % (where, f[1]))
    return None


run_history_safe = safe(run_history)


def _check_attach(case, res, count=True):
    """attach_attackers against the abstract model"""
    try:
        built = Built(case, attackers=True, explicit_ids=True)
        g = built.attack_graph()
    except TooExpensive:
        if count:
            res.count('skipped:too-expensive')
        return None
    except Exception as exc:
        return ('build:raised-%s' % type(exc).__name__, 'building a generated case raised %r' % (exc,))
    lang, am = built.lang, built.am
    # the model may have served other graphs before (or after) this one: attaching to THIS graph must use
    # this graph's nodes and must not touch the others
    variant = case.get('attach_variant', 'plain')
    other = None
    try:
        if variant == 'second-graph':
            other = built.attack_graph()             # generated later from the same model
        elif variant == 'copy':
            import copy as _copy
            other, g = g, _copy.deepcopy(g)           # attach on the copy, the original must stay untouched
    except TooExpensive:
        return None
    removed_names = set()
    if variant == 'attach-again-after-regenerate':
        # an entry point's node is missing at the first attach (it was removed); the graph is then regenerated, the
        # node is back, and the attackers are attached again: they must get every entry point the model names
        names0 = {a['id']: a['name'] for a in am.assets}
        gone = False
        for t in am.attackers:
            for aid, steps in t['entry_points'][:2]:
                n0 = g.get_node_by_full_name(names0[aid] + ':' + steps[0]) if steps else None
                if n0 is not None:
                    g.remove_node(n0)
                    gone = True
        try:
            g.attach_attackers()
            if gone and count:
                res.count('class:first-attach-with-a-missing-entry-node')
            g.regenerate_graph()
        except TooExpensive:
            return None
        except Exception as exc:
            return ('attach:raised-%s' % type(exc).__name__, 'attach_attackers / regenerate_graph raised %r' % (exc,))
    if variant == 'entry-node-removed':
        names0 = {a['id']: a['name'] for a in am.assets}
        for t in am.attackers:
            for aid, steps in t['entry_points'][:1]:
                n0 = g.get_node_by_full_name(names0[aid] + ':' + steps[0])
                if n0 is not None:
                    g.remove_node(n0)
                    removed_names.add(n0.name if False else names0[aid] + ':' + steps[0])
    other_before = agraph.snapshot(other) if other is not None else None
    try:
        g.attach_attackers()
    except Exception as exc:
        return ('attach:raised-%s' % type(exc).__name__, 'attach_attackers raised %r' % (exc,))
    if count:
        res.count('attach-compared')
        res.count('attach-variant:' + variant)
    if other is not None and agraph.snapshot(other) != other_before:
        return ('attach:touches-another-graph-of-the-same-model',
                'attach_attackers on one graph changed another graph built from the same model (%s): %s' % (
                    variant, agraph.snap_diff(other_before, agraph.snapshot(other))))
    if len(g.attackers) != len(am.attackers):
        return ('attach:attacker-count', '%d graph attackers for %d model attackers' % (len(g.attackers), len(am.attackers)))
    names = {a['id']: a['name'] for a in am.assets}
    seen_pairs = set()
    for t, ga in zip(am.attackers, g.attackers):
        if ga.name != t['name']:
            return ('attach:attacker-name', 'graph attacker %r for model attacker %r' % (ga.name, t['name']))
        want = set()
        for aid, steps in t['entry_points']:
            typ = am.asset(aid)['type']
            for s in steps:
                if s in lang.steps(typ) and (names[aid] + ':' + s) not in removed_names:
                    want.add(names[aid] + ':' + s)
                elif count:
                    res.count('class:attach-unknown-step')
                if (aid, s) in seen_pairs and count:
                    res.count('class:attach-overlapping-entry-points')
                seen_pairs.add((aid, s))
        got_e = sorted(n.full_name for n in ga.entry_points)
        got_r = sorted(n.full_name for n in ga.reached_attack_steps)
        if got_e != sorted(want):
            return ('attach:entry-points', 'attacker %r entry points %s, the model names %s' % (ga.name, got_e, sorted(want)))
        if got_r != sorted(want):
            return ('attach:reached-steps', 'attacker %r reached steps %s, the model names %s' % (ga.name, got_r, sorted(want)))
        for n in ga.entry_points:
            if not any(n is x for x in g.nodes):
                return ('attach:entry-point-outside-graph', 'entry point %s is not a node of the graph' % n.full_name)
    f = agraph.check_compromise_symmetry(g) or agraph.check_invariants(g)
    if f:
        return (f[0], 'after attach_attackers: ' + f[1])
    return None


check_attach = safe(_check_attach)


def hostile_attackers(rng, case):
    """overlapping entry points between attackers, several steps per asset, unknown steps"""
    am = case['amodel']
    lang = Lang(case['spec'])
    if not am['assets']:
        return case
    atts = []
    pool = []
    for a in am['assets']:
        for s in lang.steps(a['type']):
            pool.append((a['id'], s))
    if not pool:
        return case
    shared = rng.sample(pool, min(len(pool), rng.randint(1, 3)))
    for j in range(rng.randint(1, 4)):
        eps = {}
        for aid, s in shared if rng.random() < 0.7 else []:
            eps.setdefault(aid, []).append(s)
        for aid, s in rng.sample(pool, min(len(pool), rng.randint(0, 3))):
            if s not in eps.setdefault(aid, []):
                eps[aid].append(s)
        if rng.random() < 0.2:
            aid = rng.choice(am['assets'])['id']
            eps.setdefault(aid, []).append('noSuchStep')
        atts.append({'id': None, 'name': 'Attacker%d' % j, 'entry_points': [[k, v] for k, v in eps.items()]})
    am['attackers'] = atts
    return case


def gen_history(rng, n, n_att):
    ops = []
    for _ in range(n):
        r = rng.random()
        if r < 0.45:
            ops.append([rng.choice(['c', 'nc']), rng.randrange(n_att), rng.randrange(1000)])
        elif r < 0.7:
            ops.append([rng.choice(['u', 'nu']), rng.randrange(n_att), rng.randrange(1000)])
        elif r < 0.85:
            ops.append(['add', rng.randrange(n_att), [rng.randrange(1000) for _ in range(rng.choice([0, 0, 1, 3, 8]))],
                        [rng.randrange(1000) for _ in range(rng.choice([0, 1, 2]))]])
        elif r < 0.89:
            ops.append(['addbad', rng.randrange(n_att), [rng.randrange(1000) for _ in range(rng.choice([1, 2, 4]))], rng.choice(['no-such-node', 'id-in-use'])])
        elif r < 0.97:
            ops.append(['rm', rng.randrange(n_att)])
        else:
            ops.append(['rmnode', rng.randrange(1000)])
    return ops


def run(rng, res, tier, shard, nshards):
    from maltoolbox.attackgraph.attacker import Attacker
    from maltoolbox.attackgraph.node import AttackGraphNode
    import maltoolbox.attackgraph.attackgraph as agmod
    reach = Reach()
    reach.add('Attacker.compromise', Attacker.compromise)
    reach.add('Attacker.undo_compromise', Attacker.undo_compromise)
    reach.add('AttackGraphNode.compromise', AttackGraphNode.compromise)
    reach.add('AttackGraphNode.undo_compromise', AttackGraphNode.undo_compromise)
    reach.add('AttackGraph.attach_attackers', agmod.AttackGraph.attach_attackers)
    reach.add('AttackGraph.remove_attacker', agmod.AttackGraph.remove_attacker)
    reach.add('AttackGraph.add_attacker', agmod.AttackGraph.add_attacker)
    reach.start()
    seen = set()
    depth = 4 if tier == 'quick' else 5
    n = 0
    for k in range(1, depth + 1):
        for combo in itertools.product(range(len(TINY_OPS)), repeat=k):
            n += 1
            if n % nshards != shard:
                continue
            hist = [TINY_OPS[i] for i in combo]
            f = run_history_safe(3, 2, hist, res)
            res.count('exhaustive-histories')
            kinds = [op[0] for op in hist]
            nt = any(x in kinds for x in ('c', 'nc', 'add')) and any(x in kinds for x in ('u', 'nu', 'rm'))
            res.case(digest(combo) if nt else None)
            if f:
                if f[0] not in seen:
                    seen.add(f[0])
                    res.violation(f[0], f[1], {'kind': 'history', 'nodes': 3, 'attackers': 2, 'history': hist})
                else:
                    res.viol_counts[f[0]] = res.viol_counts.get(f[0], 0) + 1
    res.notes['exhaustive'] = False
    res.notes['exhaustive_part'] = 'all sequences up to length %d of %d operations over 2 attackers x 3 nodes (%d histories over all shards)' % (depth, len(TINY_OPS), n)
    budget = Budget(CASES[tier] // nshards + 1, SECONDS[tier])
    while budget.more():
        nn = rng.choice([3, 4, 8, 30, 200])
        na = rng.randint(1, 4) if rng.random() < 0.9 else rng.randint(5, 12)
        hist = gen_history(rng, rng.randint(1, 80), na)
        f = run_history_safe(nn, na, hist, res)
        res.case(digest([nn, na, hist]))
        if len(res.samples) < 3 and len(hist) >= 6:
            res.sample({'nodes': nn, 'attackers': na, 'history': hist[:14]})
        if f:
            res.violation(f[0], f[1], {'kind': 'history', 'nodes': nn, 'attackers': na, 'history': hist})
    for _ in range(ATTACH[tier] // nshards + 1):
        if not budget.more() and tier == 'quick' and res.counters.get('attach-compared', 0) > 40:
            break
        case = hostile_attackers(rng, gen_case(rng, Cfg(max_depth=2, max_assets=5), MCfg(max_assets=6, attackers=0.0, hostile_names=0.2), corelang_share=0.06))
        case['attach_variant'] = rng.choice(['plain', 'second-graph', 'copy', 'entry-node-removed', 'attach-again-after-regenerate'])
        f = check_attach(case, res)
        res.case(digest([case['spec'], case['amodel']]))
        if f:
            res.violation(f[0], f[1], {'kind': 'attach', 'case': case})
    if budget.timed_out():
        res.notes['time-cap-hit'] = True
    reach.stop()
    res.reach = dict(reach.counts)


def replay(case, res):
    if case['kind'] == 'history':
        f = run_history_safe(case['nodes'], case['attackers'], case['history'], res)
    else:
        f = check_attach(case['case'], res)
    res.case(None)
    if f:
        res.violation(f[0], f[1], case)

"""C07 - saving and loading a model preserves it (JSON and YAML)."""
from __future__ import annotations

import copy
import json
import os
import shutil
import tempfile

from ..mon import Reach
from ..ref_sem import Lang
from ..result import Budget, digest, safe
from ..shadow import Lockstep, Divergence, gen_history, norm_assocs
from ..stream import corelang_spec
from ..gen_lang import gen_language, Cfg
from ..gen_model import HOSTILE, EXOTIC, EDGE_DEF_VALUES
from ..stream import PATH_SHAPES

META = {
    'rule': ('models reached through valid API histories (id gaps after removals, explicit / 0 / negative ids, non-default '
             'and fractional defenses, unicode and YAML-significant names, extras on assets and associations, 0-3 attackers '
             'with several entry points, duplicate-named association classes) over coreLang and generated languages; saved '
             'as .json / .yml / .yaml, loaded with the same language and compared TYPED with the abstract model the '
             'original was built from (ids as ints, names as str, every defense incl. defaults as float, extras, '
             'association class / fields / member ids / extras, attackers id / name / entry points); the loaded model is '
             'saved again and the parsed file contents compared; hand-written files (permuted asset order, id 0 not first, '
             'type-only shorthand, scalar instead of list targets) must load to the model they describe; non-trivial = '
             'model with >= 2 assets and >= 1 association; distinct = digest(history, format)'
             '; added strata: exotic characters in names / extras / model name, defense values next to the defaults and given as int, path shapes (absolute, relative, ./x, bare, dots and blanks), a smaller model saved over the same path'),
    'assumptions': ['shadow model semantics (mtv/shadow.py)', 'PyYAML / json as libraries'],
    'shards': {'quick': 8, 'thorough': 16},
    'quotas': {
        'quick': {'format:json': 80, 'format:yml': 100, 'format:yaml': 90, 'class:id-0': 100, 'class:negative-id': 50,
                  'class:id-gap': 100, 'class:nondefault-defense': 100, 'class:asset-extras': 50, 'class:assoc-extras': 40,
                  'class:attackers>=2': 50, 'class:hostile-name': 100, 'class:exotic-characters': 60, 'class:defense-next-to-default': 30, 'handwritten:permuted': 100,
                  'handwritten:shorthand': 30, 'handwritten:scalar-target': 30, 'handwritten:id0-not-first': 30,
                  'resave-compared': 300, 'class:default-on-defense-off': 20,
                  'class:resave-same-path-after-entry-point-edit': 50},
        'thorough': {'format:json': 20000, 'format:yml': 20000, 'format:yaml': 10000, 'class:id-0': 5000,
                     'class:assoc-extras': 3000, 'handwritten:permuted': 5000, 'handwritten:shorthand': 1000,
                     'handwritten:scalar-target': 1000, 'resave-compared': 40000},
    },
}
CASES = {'quick': 1500, 'thorough': 60000}
SECONDS = {'quick': 300, 'thorough': 600}
EXTRAS = [{'position': {'x': 1, 'y': 2.5}}, {'note': 'n'}, {'k': [1, 2], 'flag': True}, {'color': 'red', 'n': None}]


def typed_view(model, lang):
    """typed observable content of a real Model"""
    out = {'name': model.name, 'assets': {}, 'associations': [], 'attackers': {}}
    for a in model.assets:
        raw_id = getattr(a.id, '_value', a.id)
        if isinstance(raw_id, bool) or not isinstance(raw_id, int):
            raise Divergence('model.load:id-not-int', 'asset id %r has type %s' % (raw_id, type(raw_id).__name__))
        raw_name = getattr(a.name, '_value', a.name)
        if not isinstance(raw_name, str):
            raise Divergence('model.load:name-not-str', 'asset name %r has type %s' % (raw_name, type(raw_name).__name__))
        defs = {}
        for d in lang.defenses(str(a.type)):
            v = getattr(a, d)
            rv = getattr(v, '_value', v)
            if isinstance(rv, bool) or not isinstance(rv, (int, float)):
                raise Divergence('model.load:defense-not-number', 'defense %s of asset %s is %r' % (d, raw_id, rv))
            defs[d] = float(rv)
        ex = a.extras.as_dict() if hasattr(a.extras, 'as_dict') else dict(a.extras or {})
        out['assets'][raw_id] = {'name': raw_name, 'type': str(a.type), 'defenses': defs, 'extras': ex}
    d = model._to_dict()
    out['associations'] = norm_assocs(d['associations'])
    for t in model.attackers:
        if isinstance(t.id, bool) or not isinstance(t.id, int):
            raise Divergence('model.load:attacker-id-not-int', 'attacker id %r' % (t.id,))
        eps = {}
        for asset, steps in t.entry_points:
            if asset is None:
                raise Divergence('model.load:entry-point-asset-missing', 'attacker %r has an entry point on a missing asset' % (t.id,))
            eps[int(asset.id)] = list(steps)
        out['attackers'][t.id] = {'name': t.name, 'entry_points': eps}
    return out


def shadow_view(ls):
    sh, lang = ls.sh, ls.lang
    out = {'name': ls.model.name, 'assets': {}, 'associations': [], 'attackers': {}}
    ids = {a.key: a.id for a in sh.assets}
    for a in sh.assets:
        defs = dict(lang.defenses(a.type))
        defs.update({k: float(v) for k, v in a.defenses.items()})
        out['assets'][a.id] = {'name': a.name, 'type': a.type, 'defenses': defs, 'extras': a.extras}
    out['associations'] = norm_assocs(sh.to_dict()['associations'])
    for t in sh.attackers:
        out['attackers'][t.id] = {'name': t.name, 'entry_points': {ids[k]: list(st) for k, st in t.eps}}
    return out


def diff_views(got, want):
    if got['name'] != want['name']:
        return ('model.load:name', 'model name %r expected %r' % (got['name'], want['name']))
    if set(got['assets']) != set(want['assets']):
        return ('model.load:asset-ids', 'asset ids %s expected %s' % (sorted(got['assets']), sorted(want['assets'])))
    for i, w in want['assets'].items():
        g = got['assets'][i]
        for k in ('name', 'type', 'defenses', 'extras'):
            if g[k] != w[k]:
                return ('model.load:asset-%s' % k, 'asset %s %s: %r expected %r' % (i, k, g[k], w[k]))
    if got['associations'] != want['associations']:
        ge = [x for x in got['associations'] if x not in want['associations']]
        we = [x for x in want['associations'] if x not in got['associations']]
        key = 'model.load:association-extras' if [json.loads(x)[:2] for x in got['associations']] == [json.loads(x)[:2] for x in want['associations']] else 'model.load:associations'
        return (key, 'associations differ: got-only %s expected-only %s' % (ge[:3], we[:3]))
    if got['attackers'] != want['attackers']:
        return ('model.load:attackers', 'attackers %s expected %s' % (got['attackers'], want['attackers']))
    return None


def parse_file(path):
    import yaml
    with open(path, encoding='utf-8') as f:
        if path.endswith('.json'):
            return json.load(f)
        return yaml.safe_load(f)


def handwritten_dict(rng, ls, res, count=True):
    """a file a person would write for the shadow's model"""
    sh, lang = ls.sh, ls.lang
    ids = {a.key: a.id for a in sh.assets}
    assets = list(sh.assets)
    rng.shuffle(assets)
    if count:
        res.count('handwritten:permuted')
        if assets and any(a.id == 0 for a in assets[1:]):
            res.count('handwritten:id0-not-first')
    d = {'metadata': {'name': ls.model.name, 'langVersion': '1', 'langID': 'x'}, 'assets': {}, 'associations': [], 'attackers': {}}
    for a in assets:
        dflt = lang.defenses(a.type)
        nd = {k: v for k, v in a.defenses.items() if float(v) != dflt[k] or rng.random() < 0.3}
        if a.name == '%s:%s' % (a.type, a.id) and not nd and not a.extras and rng.random() < 0.8:
            d['assets'][a.id] = a.type
            if count:
                res.count('handwritten:shorthand')
            continue
        e = {'name': a.name, 'type': a.type}
        if nd:
            e['defenses'] = nd
        if a.extras:
            e['extras'] = a.extras
        d['assets'][a.id] = e
    for s in sh.assocs:
        la = lang.assocs[s.ai]
        fields = {}
        for f, keys in ((la['leftField'], s.left), (la['rightField'], s.right)):
            v = [ids[k] for k in keys]
            if len(v) == 1 and rng.random() < 0.5:
                v = v[0]
                if count:
                    res.count('handwritten:scalar-target')
            fields[f] = v
        e = {s.cls: fields}
        if s.extras:
            e['extras'] = s.extras
        d['associations'].append(e)
    atts = list(sh.attackers)
    rng.shuffle(atts)
    for t in atts:
        d['attackers'][t.id] = {'name': t.name, 'entry_points': {ids[k]: {'attack_steps': list(st)} for k, st in t.eps}}
    return d


def write_handwritten(d, path):
    import yaml
    with open(path, 'w', encoding='utf-8') as f:
        if path.endswith('.json'):
            json.dump(d, f, indent=1)
        else:
            # (with allow_unicode PyYAML writes U+0085 / U+2028 / U+2029 raw and its own loader folds them)
            yaml.safe_dump(d, f, sort_keys=False, allow_unicode=not any(c in json.dumps(d, ensure_ascii=False) for c in '\x85\u2028\u2029'))


def gen_case(rng, tier):
    r = rng.random()
    if r < 0.3:
        spec, src = corelang_spec('core'), 'corelang'
    else:
        spec, src = gen_language(rng, Cfg(max_assets=5, max_assocs=5, max_depth=1, dup_assoc_names=0.4)), 'generated'
    lang = Lang(spec)
    names = ['srv', 'db', 'n', 'n:1', 'a:b', None, None] + rng.sample(HOSTILE, 4) + (rng.sample(EXOTIC, 3) if rng.random() < 0.4 else [])
    hist = gen_history(rng, lang, rng.randint(2, 40) if rng.random() < 0.96 else rng.randint(120, 250), invalid=0.0, names=names)
    extra_ops = []
    for _ in range(rng.randint(0, 3)):
        extra_ops.append(['set_extras', ['live', rng.randrange(64)], rng.choice(EXTRAS) if rng.random() < 0.7 else {'note': rng.choice(EXOTIC), rng.choice(EXOTIC): 1}])
    for _ in range(rng.randint(0, 3)):
        extra_ops.append(['set_assoc_extras', ['live', rng.randrange(64)], rng.choice(EXTRAS)])
    for _ in range(rng.randint(0, 8)):
        extra_ops.append(['set_defense', ['live', rng.randrange(64)], rng.randrange(16), rng.choice([0.0, 1.0, 0.5, 0.25, 0.0, 0, 1] + ([rng.choice(EDGE_DEF_VALUES)] * 2 if rng.random() < 0.3 else []))])
    hist = hist + extra_ops
    return {'spec': spec if src == 'generated' else 'corelang', 'history': hist,
            'name': rng.choice(['m', 'My model', 'yes', 'null', '1e3', 'a: b', 'ünï', '#x'] + ([rng.choice(EXOTIC)] * 2 if rng.random() < 0.3 else [])),
            'fmt': rng.choice(['json', 'yml', 'yml', 'yaml']), 'hw_seed': rng.randrange(10 ** 9),
            'path_shape': rng.choice(PATH_SHAPES), 'shrink_and_resave': rng.randrange(1, 10 ** 9) if rng.random() < 0.3 else None}


def _check_case(case, res, count=True):
    import random
    from maltoolbox.model import Model
    spec = corelang_spec('core') if case['spec'] == 'corelang' else case['spec']
    counters = {}
    try:
        ls = Lockstep(spec, counters=counters)
    except Exception as exc:
        return ('build:raised-%s' % type(exc).__name__, 'building classes raised %r' % (exc,))
    ls.model.name = case['name']
    ls.check_every_step = False      # C05 decides the history; here only the final model matters
    try:
        for op in case['history']:
            ls.apply(op)
        ls.compare('end of history')
    except Divergence as d:
        if d.key.startswith('model.to_dict'):
            # the model serialises to something else than it holds: that is what gets written to the file
            return ('model.serialise:' + d.key.split(':', 1)[1], d.what)
        # C05's business; the model is not usable for this case
        if count:
            res.count('history-diverged(C05)')
        return ('history:' + d.key, d.what)
    sh, lang = ls.sh, ls.lang
    if count:
        ids = sorted(a.id for a in sh.assets)
        if 0 in ids:
            res.count('class:id-0')
        if any(i < 0 for i in ids):
            res.count('class:negative-id')
        if ids and ids != list(range(ids[0], ids[0] + len(ids))):
            res.count('class:id-gap')
        if any(float(v) != lang.defenses(a.type)[k] for a in sh.assets for k, v in a.defenses.items()):
            res.count('class:nondefault-defense')
        if any(float(v) == 0.0 and lang.defenses(a.type)[k] == 1.0 for a in sh.assets for k, v in a.defenses.items()):
            res.count('class:default-on-defense-off')
        if any(a.extras for a in sh.assets):
            res.count('class:asset-extras')
        if any(s.extras for s in sh.assocs):
            res.count('class:assoc-extras')
        if len(sh.attackers) >= 2:
            res.count('class:attackers>=2')
        if any(a.name in HOSTILE for a in sh.assets):
            res.count('class:hostile-name')
        if any(a.name in EXOTIC for a in sh.assets) or case['name'] in EXOTIC:
            res.count('class:exotic-characters')
        if any(float(v) in EDGE_DEF_VALUES for a in sh.assets for k, v in a.defenses.items()):
            res.count('class:defense-next-to-default')
        res.count('format:' + case['fmt'])
    want = shadow_view(ls)
    d = tempfile.mkdtemp(prefix='c07-', dir=os.getcwd())
    from ..stream import shaped_path
    shape = shaped_path(d, 'm1.' + case['fmt'], case.get('path_shape', 'abs'))
    try:
        p1 = shape.__enter__()
        if count:
            res.count('path-shape:' + case.get('path_shape', 'abs'))
        try:
            ls.model.save_to_file(p1)
        except Exception as exc:
            return ('model.save:raised-%s' % type(exc).__name__, 'save_to_file(.%s) raised %r' % (case['fmt'], exc))
        try:
            m2 = Model.load_from_file(p1, ls.factory)
        except Exception as exc:
            return ('model.load:raised-%s' % type(exc).__name__, 'load_from_file(.%s) of a saved model raised %r' % (case['fmt'], exc))
        try:
            got = typed_view(m2, lang)
        except Divergence as dv:
            return (dv.key, dv.what)
        f = diff_views(got, want)
        if f:
            return (f[0], 'after save/load (.%s): %s' % (case['fmt'], f[1]))
        # save the loaded model again: same content
        p2 = os.path.join(os.path.dirname(p1), 'm2.' + case['fmt'])
        try:
            m2.save_to_file(p2)
        except Exception as exc:
            return ('model.save:raised-%s' % type(exc).__name__, 'saving the loaded model raised %r' % (exc,))
        c1, c2 = parse_file(p1), parse_file(p2)
        if count:
            res.count('resave-compared')
        if c1 != c2:
            from .C03 import first_diff
            return ('model.resave:content-differs', 'save(load(save(m))) differs from save(m) at %s' % first_diff(c1, c2))
        # the same model edited in place and saved to the SAME path again
        if sh.attackers and any(t.eps for t in sh.attackers):
            t = next(t for t in sh.attackers if t.eps)
            akey, steps = t.eps[0]
            a = sh.asset(akey)
            new_step = next((s2 for s2 in lang.steps(a.type) if s2 not in steps), None)
            if new_step is not None:
                ls.real[t.key].add_entry_point(ls.real[akey], new_step)
                steps.append(new_step)
                if count:
                    res.count('class:resave-same-path-after-entry-point-edit')
                try:
                    ls.model.save_to_file(p1)
                    m4 = Model.load_from_file(p1, ls.factory)
                    got4 = typed_view(m4, lang)
                except Divergence as dv:
                    return (dv.key, dv.what)
                except Exception as exc:
                    return ('model.resave-same-path:raised-%s' % type(exc).__name__, 'saving / loading again raised %r' % (exc,))
                f = diff_views(got4, shadow_view(ls))
                if f:
                    return (f[0].replace('model.load', 'model.resave-same-path'),
                            'model edited in place (entry point %r added on asset %s) and saved to the same .%s path again: %s' % (new_step, a.id, case['fmt'], f[1]))
                want = shadow_view(ls)
        # hand-written file
        rng = random.Random(case['hw_seed'])
        hw = handwritten_dict(rng, ls, res, count)
        p3 = os.path.join(d, 'hw.' + case['fmt'])
        write_handwritten(hw, p3)
        try:
            m3 = Model.load_from_file(p3, ls.factory)
        except Exception as exc:
            return ('model.load-handwritten:raised-%s' % type(exc).__name__,
                    'loading a hand-written .%s file (asset order %s) raised %r' % (case['fmt'], list(hw['assets']), exc))
        try:
            got3 = typed_view(m3, lang)
        except Divergence as dv:
            return ('handwritten:' + dv.key, dv.what)
        f = diff_views(got3, want)
        if f:
            return (f[0].replace('model.load', 'model.load-handwritten'),
                    'hand-written .%s file (asset order %s): %s' % (case['fmt'], list(hw['assets']), f[1]))
        # the model shrinks (assets removed through the API) and is saved over the first file: the file holds the
        # smaller model only
        if case.get('shrink_and_resave') and len(sh.assets) >= 2:
            srng = random.Random(case['shrink_and_resave'])
            try:
                for _ in range(max(1, len(sh.assets) // 2)):
                    ls.apply(['remove_asset', ['live', srng.randrange(64)]])
                for a2 in sh.assets:
                    ls.apply(['set_extras', ['live', 0], {}])
                ls.model.save_to_file(p1)
                m5 = Model.load_from_file(p1, ls.factory)
                got5 = typed_view(m5, lang)
            except Divergence as dv:
                return (dv.key, dv.what)
            except Exception as exc:
                return ('model.resave-same-path:raised-%s' % type(exc).__name__,
                        'assets were removed and the model saved to the same .%s path again; save / load raised %r' % (case['fmt'], exc))
            if count:
                res.count('class:smaller-model-saved-over-the-same-path')
            f = diff_views(got5, shadow_view(ls))
            if f:
                return (f[0].replace('model.load', 'model.resave-same-path'), 'smaller model saved to the same path again: ' + f[1])
    finally:
        shape.__exit__(None, None, None)
        shutil.rmtree(d, ignore_errors=True)
    return None


check_case = safe(_check_case)


def run(rng, res, tier, shard, nshards):
    from maltoolbox.model import Model
    import maltoolbox.file_utils as fu
    reach = Reach()
    for fn in ('_to_dict', 'asset_to_dict', 'association_to_dict', 'attacker_to_dict', 'save_to_file'):
        reach.add('Model.' + fn, getattr(Model, fn, None))
    reach.add('Model._from_dict', Model._from_dict.__func__)
    reach.add('file_utils.save_dict_to_file', fu.save_dict_to_file)
    reach.start()
    budget = Budget(CASES[tier] // nshards + 1, SECONDS[tier])
    while budget.more():
        case = gen_case(rng, tier)
        f = check_case(case, res)
        nt = sum(1 for op in case['history'] if op[0] == 'add_asset') >= 2 and any(op[0] == 'add_assoc' for op in case['history'])
        res.case(digest([case['history'], case['fmt']]) if nt else None)
        if len(res.samples) < 3 and nt:
            res.sample({'fmt': case['fmt'], 'model_name': case['name'], 'history': case['history'][:10]})
        if f:
            if f[0].startswith('history:'):
                continue
            res.violation(f[0], f[1], case)
    if budget.timed_out():
        res.notes['time-cap-hit'] = True
    reach.stop()
    res.reach = dict(reach.counts)


def replay(case, res):
    f = check_case(case, res)
    res.case(None)
    if f:
        res.violation(f[0], f[1], case)

"""C13 - pruning removes exactly the non-viable or unnecessary attack steps."""
from __future__ import annotations

import copy
import itertools

from ..mon import Reach
from ..result import Budget, digest, safe
from .. import agraph
from .C12 import make_desc, KINDS12
from ..stream import gen_case, Built, TooExpensive
from ..gen_lang import Cfg
from ..gen_model import MCfg

META = {
    'rule': ('labelled attack graphs (labels set directly, or produced by the real analysis on hand-built and generated '
             'graphs): the survivor set expected from the labels BEFORE the call (every node except or/and nodes labelled '
             'non-viable or unnecessary) is compared by identity with graph.nodes after prune_unviable_and_unnecessary_nodes; '
             'labels and every other attribute of the survivors must be unchanged; the C09 invariants I1-I3 and the '
             'compromise symmetry must hold on the result (with attackers whose entry points / reached steps are pruned, and '
             'with double edges). EXHAUSTIVE: all graphs with <= 2 nodes over 16 node kinds x all edge sets incl. self-loops, '
             'all 3-node loop-free graphs (thorough; sampled in quick); random graphs (<= 60 nodes) with runs of 2-10 '
             'prunable nodes adjacent in graph.nodes and linked to each other; non-trivial = >= 2 prunable nodes adjacent '
             'in the node list or a prunable node referenced by an attacker; distinct = digest(case)'
             '; added strata: labels changed after an earlier analysis of the same graph, generated graphs whose model served a newer graph, chains and prunes of > 128 steps, DEBUG log level'
             '; round 7: second prune of the same graph after a survivor became an entry point (appended directly) and non-viable; nodes that left the graph keep the compromise relation symmetric'),
    'assumptions': ['structural consistency as defined by C09 (mtv/agraph.check_invariants)'],
    'shards': {'quick': 8, 'thorough': 16},
    'quotas': {
        'quick': {'prunes-compared': 2000, 'class:adjacent-prunable-run>=2': 500, 'class:adjacent-prunable-run>=4': 100,
                  'class:prunable-compromised': 200, 'class:prunable-entry-point': 100, 'class:double-edge-at-prunable': 90,
                  'class:labels-from-analysis': 100, 'class:generated-graph': 40, 'class:nothing-to-prune': 100,
                  'class:non-or-and-with-false-label-kept': 200, 'class:node-list-not-ordered-by-id': 100},
        'thorough': {'prunes-compared': 600000, 'class:adjacent-prunable-run>=4': 10000, 'class:generated-graph': 5000},
    },
}
RANDOM = {'quick': 2400, 'thorough': 200000}
GENERATED = {'quick': 160, 'thorough': 12000}
SECONDS = {'quick': 300, 'thorough': 600}


def prunable(n):
    return n.type in ('or', 'and') and (not n.is_viable or not n.is_necessary)


def check_graph(g, res, count=True, ever_atts=()):
    """one prune, judged; then (graphs with an attacker) the pruned graph goes on living: a surviving step becomes an
    entry point through the attacker's public list, is relabelled non-viable, and the graph is pruned a second time"""
    f = _check_graph_once(g, res, count, ever_atts)
    if f or not g.attackers:
        return f
    a0 = g.attackers[0]
    cand = [n for n in g.nodes if n.type in ('or', 'and') and not any(n is e for e in a0.entry_points)]
    if not cand:
        return None
    s = cand[len(cand) // 2]
    a0.entry_points.append(s)
    s.is_viable = False
    if count:
        res.count('class:second-prune-after-entry-point-appended')
    f = _check_graph_once(g, res, False, ever_atts)
    return ('second-' + f[0], 'second prune of the same graph (after %s became an entry point of %s and non-viable): %s' % (s.full_name, a0.name, f[1])) if f else None


def _check_graph_once(g, res, count=True, ever_atts=()):
    from maltoolbox.attackgraph.analyzers.apriori import prune_unviable_and_unnecessary_nodes
    nodes = list(g.nodes)
    expect = [n for n in nodes if not prunable(n)]
    gone = [n for n in nodes if prunable(n)]
    attrs = {id(n): (n.id, n.type, n.name, n.is_viable, n.is_necessary, n.defense_status, n.existence_status,
                     copy.deepcopy(n.ttc), list(n.tags), copy.deepcopy(n.extras)) for n in expect}
    if count:
        run = best = 0
        for n in nodes:
            run = run + 1 if prunable(n) else 0
            best = max(best, run)
        if best >= 2:
            res.count('class:adjacent-prunable-run>=2')
        if best >= 4:
            res.count('class:adjacent-prunable-run>=4')
        if not gone:
            res.count('class:nothing-to-prune')
        if any(n.compromised_by for n in gone):
            res.count('class:prunable-compromised')
        if any(any(n is e for a in g.attackers for e in a.entry_points) for n in gone):
            res.count('class:prunable-entry-point')
        if any(sum(1 for c in n.children if c is x) > 1 for n in nodes for x in n.children if prunable(n) != prunable(x)):
            res.count('class:double-edge-at-prunable')
        if any(n.type not in ('or', 'and') and (not n.is_viable or not n.is_necessary) for n in nodes):
            res.count('class:non-or-and-with-false-label-kept')
    try:
        prune_unviable_and_unnecessary_nodes(g)
    except Exception as exc:
        return ('prune:raised-%s' % type(exc).__name__, 'prune raised %r' % (exc,))
    if count:
        res.count('prunes-compared')
    after = list(g.nodes)
    left = [n for n in after if prunable(n)]
    if left:
        pos = [nodes.index(n) for n in left]
        adj = any(p > 0 and prunable(nodes[p - 1]) for p in pos)
        return ('prune:%s' % ('skips-adjacent-nodes' if adj else 'prunable-node-remains'),
                'after pruning %d or/and node(s) labelled non-viable / unnecessary remain, e.g. %s (viable=%s necessary=%s) at position %d of the node list' % (
                    len(left), left[0].full_name, left[0].is_viable, left[0].is_necessary, pos[0]))
    if {id(n) for n in after} != {id(n) for n in expect} or len(after) != len(expect):
        missing = [n.full_name for n in expect if not any(n is x for x in after)]
        extra = [n.full_name for n in after if not any(n is x for x in expect)]
        return ('prune:%s' % ('removes-node-that-should-stay' if missing else 'unexpected-node'),
                'survivors differ: missing %s unexpected %s' % (missing[:4], extra[:4]))
    for n in after:
        now = (n.id, n.type, n.name, n.is_viable, n.is_necessary, n.defense_status, n.existence_status, n.ttc, list(n.tags), n.extras)
        if now != attrs[id(n)]:
            return ('prune:changes-surviving-node', 'node %s changed from %s to %s' % (n.full_name, attrs[id(n)], now))
    f = agraph.check_invariants(g, nodes, list(g.attackers) + list(ever_atts), {n.full_name for n in nodes}) or agraph.check_compromise_symmetry(g, list(g.attackers), ever_nodes=nodes)
    if f:
        return ('prune-result:' + f[0], 'after pruning: ' + f[1])
    for n in gone:
        for a in g.attackers:
            if any(n is x for x in a.reached_attack_steps) or any(n is x for x in a.entry_points):
                return ('prune-result:attacker-references-pruned-node', 'attacker %s still references pruned node %s' % (a.name, n.full_name))
    return None


def _check_desc(case, res, count=True):
    from maltoolbox.attackgraph import Attacker
    from maltoolbox.attackgraph.analyzers.apriori import calculate_viability_and_necessity
    g, objs = agraph.build(case['desc'], ids=case.get('ids'))
    if case.get('ids') and count:
        res.count('class:node-list-not-ordered-by-id')
    if case.get('analyse'):
        calculate_viability_and_necessity(g)
        if count:
            res.count('class:labels-from-analysis')
    if case.get('relabel_after_analysis'):
        # the graph was analysed once (whatever that found); the labels that decide are set afterwards, by hand
        # or by an incremental re-evaluation, without running the whole analysis again
        calculate_viability_and_necessity(g)
        for nd, n in zip(case['desc']['nodes'], objs):
            if 'is_viable' in nd:
                n.is_viable = nd['is_viable']
            if 'is_necessary' in nd:
                n.is_necessary = nd['is_necessary']
        if count:
            res.count('class:labels-changed-after-an-analysis')
    for k, (eps, reached) in enumerate(case.get('attackers', [])):
        a = Attacker(name='att%d' % k, entry_points=[], reached_attack_steps=[])
        ids = [objs[i % len(objs)].id for i in reached]
        eids = [objs[i % len(objs)].id for i in eps]
        g.add_attacker(a, entry_points=eids, reached_attack_steps=ids)
    return check_graph(g, res, count)


check_desc = safe(_check_desc)


def _check_generated(case, res, count=True):
    from maltoolbox.attackgraph.analyzers.apriori import calculate_viability_and_necessity
    try:
        built = Built(case, attackers=True, explicit_ids=True)
        g = built.attack_graph()
    except TooExpensive:
        if count:
            res.count('skipped:too-expensive')
        return None
    except Exception as exc:
        return ('build:raised-%s' % type(exc).__name__, 'building a generated case raised %r' % (exc,))
    g.attach_attackers()
    calculate_viability_and_necessity(g)
    if count:
        res.count('class:generated-graph')
    return check_graph(g, res, count)


check_generated = safe(_check_generated)


def nontrivial(desc_nodes):
    run = 0
    for nd in desc_nodes:
        p = nd['type'] in ('or', 'and') and (not nd.get('is_viable', True) or not nd.get('is_necessary', True))
        run = run + 1 if p else 0
        if run >= 2:
            return True
    return False


def gen_random(rng):
    size = rng.choice([3, 5, 8, 15, 30, 60] + ([130, 200] if rng.random() < 0.1 else []))
    kinds = []
    i = 0
    while i < size:
        if rng.random() < 0.3:
            # a run of prunable nodes
            for _ in range(rng.randint(2, 10)):
                if i >= size:
                    break
                kinds.append((rng.choice(['or', 'and']), rng.random() < 0.5, rng.random() < 0.3))
                if kinds[-1][1] and kinds[-1][2]:
                    kinds[-1] = (kinds[-1][0], False, True)
                i += 1
        else:
            kinds.append((rng.choice(['or', 'and', 'defense0', 'defense1']), rng.random() < 0.8, rng.random() < 0.8))
            i += 1
    p = min(0.6, 3.0 / size)
    edges = [[a, b] for a in range(size) for b in range(size) if (a != b or rng.random() < 0.05) and (rng.random() < p or (abs(a - b) == 1 and rng.random() < 0.6))]
    if edges and rng.random() < 0.4:
        for _ in range(rng.randint(1, 3)):
            edges.append(list(rng.choice(edges)))        # double edges
    atts = []
    for _ in range(rng.choice([0, 1, 2])):
        atts.append(([rng.randrange(size) for _ in range(rng.randint(0, 2))], [rng.randrange(size) for _ in range(rng.randint(0, 5))]))
    return {'desc': make_desc(kinds, edges), 'attackers': atts}


def run(rng, res, tier, shard, nshards):
    import maltoolbox.attackgraph.analyzers.apriori as ap
    import maltoolbox.attackgraph.attackgraph as agmod
    reach = Reach()
    reach.add('apriori.prune_unviable_and_unnecessary_nodes', ap.prune_unviable_and_unnecessary_nodes)
    reach.add('AttackGraph.remove_node', agmod.AttackGraph.remove_node)
    reach.start()
    budget = Budget(10 ** 9, SECONDS[tier])
    seen = set()

    def report(f, case):
        if f:
            if f[0] not in seen:
                seen.add(f[0])
                res.violation(f[0], f[1], case)
            else:
                res.viol_counts[f[0]] = res.viol_counts.get(f[0], 0) + 1
    n = 0
    for size in (1, 2):
        for kinds in itertools.product(KINDS12, repeat=size):
            for edges in agraph.all_edge_sets(size, True):
                n += 1
                if n % nshards != shard:
                    continue
                case = {'kind': 'desc', 'desc': make_desc(kinds, edges), 'attackers': []}
                f = check_desc(case, res)
                res.case(digest(case) if nontrivial(case['desc']['nodes']) else None)
                report(f, case)
    res.notes['exhaustive'] = False
    res.notes['exhaustive_part'] = 'all %d graphs with <= 2 nodes over 16 labelled node kinds and all edge sets incl. self-loops' % n
    full3 = tier == 'thorough'
    n = 0
    for kinds in itertools.product(KINDS12, repeat=3):
        for edges in agraph.all_edge_sets(3, False):
            n += 1
            if n % nshards != shard:
                continue
            if not full3 and rng.random() > 0.01:
                continue
            if not budget.more():
                break
            case = {'kind': 'desc', 'desc': make_desc(kinds, edges), 'attackers': []}
            f = check_desc(case, res)
            res.case(digest(case) if nontrivial(case['desc']['nodes']) else None)
            report(f, case)
    if full3:
        res.notes['exhaustive_part'] += '; all 3-node loop-free graphs over 16 labelled node kinds'
    for _ in range(RANDOM[tier] // nshards):
        if not budget.more():
            break
        case = gen_random(rng)
        case['kind'] = 'desc'
        if rng.random() < 0.3:
            ids = list(range(len(case['desc']['nodes'])))
            rng.shuffle(ids)
            case['ids'] = [i * 2 for i in ids]        # as after loading a file that lists the nodes in another order
        if rng.random() < 0.2:
            # labels from the real analysis on an unlabelled graph
            d = agraph.gen_desc(rng, rng.choice([5, 10, 25]))
            case = {'kind': 'desc', 'desc': d, 'attackers': case['attackers'], 'analyse': True}
        if not case.get('analyse') and rng.random() < 0.25:
            case['relabel_after_analysis'] = True
        f = check_desc(case, res)
        res.case(digest(case) if (case.get('analyse') or nontrivial(case['desc']['nodes'])) else None)
        if len(res.samples) < 3 and nontrivial(case['desc']['nodes']):
            res.sample({'labels': [(nd['type'], nd.get('is_viable'), nd.get('is_necessary')) for nd in case['desc']['nodes']][:14], 'edges': case['desc']['edges'][:16], 'attackers': case['attackers']})
        report(f, case)
    for _ in range(GENERATED[tier] // nshards):
        if not budget.more():
            break
        c = gen_case(rng, Cfg(max_depth=2, max_assets=5), MCfg(max_assets=6, attackers=0.8), corelang_share=0.1)
        f = check_generated(c, res)
        res.case(digest([c['spec'], c['amodel']]))
        report(f, {'kind': 'generated', 'case': c})
    if budget.timed_out():
        res.notes['time-cap-hit'] = True
    reach.stop()
    res.reach = dict(reach.counts)


def replay(case, res):
    f = check_generated(case['case'], res) if case['kind'] == 'generated' else check_desc(case, res)
    res.case(None)
    if f:
        res.violation(f[0], f[1], case)

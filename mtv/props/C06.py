"""C06 - a model can only hold what the language allows."""
from __future__ import annotations

import copy
import json

from ..mon import Reach
from ..ref_sem import Lang
from ..result import Budget, digest, safe
from ..stream import corelang_spec
from ..gen_lang import gen_language, Cfg

META = {
    'rule': ('random languages (inheritance, inherited defenses, duplicate association names, every multiplicity form) '
             '+ coreLang: (a) the generated classes are compared with the reference language (one class per asset type, '
             'defense set incl. inherited ones with default 1 iff declared Enabled, one class per association with '
             'exactly its two fields, duplicate-named associations resolvable by signature in both orientations); '
             '(b) ~40 labelled construction attempts per language: defense values {-0.1,0,0.3,1,1.5,2} via constructor and '
             'setattr; field members of the declared type / a subtype / a supertype / a sibling / an unrelated type; one '
             'more member than the maximum; the same asset twice in a field; an already existing link (same and across '
             'instances). An illegal attempt is a violation iff no exception occurred up to and including '
             'add_association AND the model serialisation contains it; a legal attempt that is refused violates the '
             '"expose" clause; non-trivial = language has >= 1 association and >= 1 defense; distinct = digest(spec)'
             '; added strata: overriding defense re-declarations, same-named associations with the same field names, duplicate attempts after refused calls / with an empty other field / non-adjacent; languages with one field name at both ends (known finding)'
             '; round 7: language graph built through four routes (dict, .mar, saved specification, MAL source)'),
    'assumptions': ['python-jsonschema-objects is trusted as a library; what is monitored is the schema the factory feeds it'],
    'shards': {'quick': 8, 'thorough': 16},
    'quotas': {
        'quick': {'classes-compared': 500, 'defense-defaults-compared': 300, 'attempt:defense-out-of-range:rejected': 100,
                  'attempt:defense-in-range:accepted': 100, 'attempt:member-subtype:accepted': 50,
                  'attempt:member-wrong-type:rejected': 100, 'attempt:over-max:rejected': 50, 'attempt:at-max:accepted': 20,
                  'attempt:dup-in-field:rejected': 50, 'attempt:dup-link:rejected': 50, 'langs-with-dup-assoc-names': 20,
                  'signature-lookups': 200},
        'thorough': {'classes-compared': 50000, 'defense-defaults-compared': 30000, 'attempt:defense-out-of-range:rejected': 10000,
                     'attempt:member-subtype:accepted': 5000, 'attempt:member-wrong-type:rejected': 10000,
                     'attempt:over-max:rejected': 5000, 'attempt:dup-in-field:rejected': 5000, 'attempt:dup-link:rejected': 5000,
                     'langs-with-dup-assoc-names': 2000},
    },
}
CASES = {'quick': 500, 'thorough': 40000}
SECONDS = {'quick': 300, 'thorough': 600}


def check_classes(lang, factory, res, count=True):
    from maltoolbox.model import Model
    ns = factory.ns
    model = Model('probe', factory)
    for t in lang.order:
        if count:
            res.count('classes-compared')
        if not hasattr(ns, t):
            return ('classes.assets:missing-class', 'no class for asset type %s' % t)
        try:
            obj = getattr(ns, t)(name='probe')
        except Exception as exc:
            return ('classes.assets:cannot-instantiate', 'instantiating %s raised %r' % (t, exc))
        if str(obj.type) != t:
            return ('classes.assets:type-default', '%s().type is %r' % (t, obj.type))
        want = lang.defenses(t)
        try:
            got = model.get_asset_defenses(obj, include_defaults=True)
        except Exception as exc:
            return ('classes.assets:defenses-unreadable', 'get_asset_defenses(%s) raised %r' % (t, exc))
        if set(got) != set(want):
            return ('classes.assets:defense-set', '%s exposes defenses %s, language says %s' % (t, sorted(got), sorted(want)))
        for d, v in want.items():
            if count:
                res.count('defense-defaults-compared')
                if lang.parent[t] and d in lang.defenses(lang.parent[t]):
                    res.count('defense-inherited')
            if float(got[d]) != v or float(getattr(obj, d)) != v:
                return ('classes.assets:defense-default', '%s.%s defaults to %r, expected %r' % (t, d, got[d], v))
    dup = False
    collide = {i for g in lang.same_signature_groups() for i in g}
    if collide and count:
        res.count('langs-with-same-name-same-ends-associations')
    for i, a in enumerate(lang.assocs):
        cls = lang.assoc_class_name(i)
        if i in collide:
            # both associations would have to be called <name>_<left>_<right>: the classes must still
            # expose the two fields of each of them
            sch = factory.json_schema['definitions']['LanguageAssociation']['definitions'].get(a['name'], {})
            entry = sch.get('definitions', {}).get(cls, sch)
            if sorted(entry.get('properties', {})) != sorted([a['leftField'], a['rightField']]):
                return ('classes.associations:same-name-same-ends-collide',
                        'associations %s share name and end types (%s); the generated classes expose only the fields %s, '
                        'association with fields (%s, %s) cannot be instantiated' % (
                            [(lang.assocs[j]['leftField'], lang.assocs[j]['rightField']) for j in sorted(collide) if lang.assocs[j]['name'] == a['name']],
                            cls, sorted(entry.get('properties', {})), a['leftField'], a['rightField']))
            continue
        if cls != a['name']:
            dup = True
        if count:
            res.count('classes-compared')
        if not hasattr(ns, cls):
            return ('classes.associations:missing-class', 'no class %s for association %s' % (cls, a['name']))
        try:
            inst = getattr(ns, cls)()
        except Exception as exc:
            return ('classes.associations:cannot-instantiate', '%s() raised %r' % (cls, exc))
        # the two fields, and only those
        sch = factory.json_schema['definitions']['LanguageAssociation']['definitions']
        entry = sch[a['name']]
        if cls != a['name']:
            entry = entry['definitions'][cls]
        fields = list(entry['properties'])
        if sorted(fields) != sorted([a['leftField'], a['rightField']]):
            return ('classes.associations:fields', '%s has fields %s expected %s' % (cls, fields, [a['leftField'], a['rightField']]))
        for l, r in ((a['leftAsset'], a['rightAsset']), (a['rightAsset'], a['leftAsset'])):
            if count:
                res.count('signature-lookups')
            try:
                got = factory.get_association_by_signature(a['name'], l, r)
            except Exception as exc:
                return ('classes.signature:raised', 'get_association_by_signature(%s,%s,%s) raised %r' % (a['name'], l, r, exc))
            same_flipped = [j for j, b in enumerate(lang.assocs) if b['name'] == a['name'] and b['leftAsset'] == l and b['rightAsset'] == r]
            ok = {lang.assoc_class_name(j) for j in same_flipped} | {cls}
            if got not in ok:
                return ('classes.signature:wrong-class', 'get_association_by_signature(%s,%s,%s) = %r expected %s' % (a['name'], l, r, got, cls))
    if dup and count:
        res.count('langs-with-dup-assoc-names')
    return None


def in_model(model, cls, lf, lids, rf, rids):
    d = model._to_dict()
    for e in d['associations']:
        for k, v in e.items():
            if k == cls and sorted(v.get(lf, [])) == sorted(lids) and sorted(v.get(rf, [])) == sorted(rids):
                return True
    return False


def attempts(rng, lang, factory, res, count=True):
    from maltoolbox.model import Model
    ns = factory.ns
    conc = lang.concrete()
    # --- defenses
    for t in conc:
        for d in lang.defenses(t):
            for v in (-0.1, 0, 0.3, 1, 1.5, 2):
                legal = 0 <= v <= 1
                for how in ('ctor', 'setattr'):
                    model = Model('m', factory)
                    raised = None
                    obj = None
                    try:
                        if how == 'ctor':
                            obj = getattr(ns, t)(name='x', **{d: v})
                        else:
                            obj = getattr(ns, t)(name='x')
                            setattr(obj, d, v)
                        model.add_asset(obj)
                    except Exception as exc:
                        raised = exc
                    label = 'attempt:defense-%s' % ('in-range' if legal else 'out-of-range')
                    if count:
                        res.count(label + (':rejected' if raised else ':accepted'))
                    if legal and raised is not None:
                        return ('attempt:valid-rejected:defense', '%s.%s = %r (%s) raised %r' % (t, d, v, how, raised))
                    if legal and float(getattr(obj, d)) != float(v):
                        return ('attempt:defense-value-lost', '%s.%s = %r reads back %r' % (t, d, v, getattr(obj, d)))
                    if not legal and raised is None:
                        val = model._to_dict()['assets'].get(int(obj.id), {}).get('defenses', {}).get(d)
                        return ('attempt:illegal-accepted:defense-out-of-range',
                                '%s.%s = %r (%s) was accepted; the model now holds %r' % (t, d, v, how, val if val is not None else getattr(obj, d)))
            break       # one defense per type is enough per language
    # --- association members
    if not lang.assocs or not conc:
        return None
    collide = {i for g in lang.same_signature_groups() for i in g}
    for i, a in enumerate(lang.assocs):
        if i in collide:
            continue
        cls = lang.assoc_class_name(i)
        lf, rf = a['leftField'], a['rightField']
        lconc = [t for t in conc if lang.is_sub(t, a['leftAsset'])]
        rconc = [t for t in conc if lang.is_sub(t, a['rightAsset'])]
        if not lconc or not rconc:
            continue

        def fresh(types):
            model = Model('m', factory)
            objs = []
            for n, t in enumerate(types):
                o = getattr(ns, t)(name='o%d' % n)
                model.add_asset(o)
                objs.append(o)
            return model, objs

        def attempt(label, legal, model, lobjs, robjs, pre=None):
            raised = None
            try:
                if pre:
                    pre()
                inst = getattr(ns, cls)()
                setattr(inst, lf, lobjs)
                setattr(inst, rf, robjs)
                model.add_association(inst)
            except Exception as exc:
                raised = exc
            if count:
                res.count('attempt:%s:%s' % (label, 'rejected' if raised else 'accepted'))
            if legal and raised is not None:
                return ('attempt:valid-rejected:%s' % label, '%s(%s=%s, %s=%s) raised %r' % (
                    cls, lf, [str(o.type) for o in lobjs], rf, [str(o.type) for o in robjs], raised))
            if not legal and raised is None:
                lids, rids = [int(o.id) for o in lobjs], [int(o.id) for o in robjs]
                if in_model(model, cls, lf, lids, rf, rids):
                    return ('attempt:illegal-accepted:%s' % label,
                            '%s(%s=%s, %s=%s) [%s] was accepted and is in the model' % (
                                cls, lf, [(int(o.id), str(o.type)) for o in lobjs], rf, [(int(o.id), str(o.type)) for o in robjs], label))
            return None

        # members by type class, on each side
        for side, declared, okconc in (('left', a['leftAsset'], lconc), ('right', a['rightAsset'], rconc)):
            for t in conc:
                if t == declared:
                    label, legal = 'member-declared-type', True
                elif lang.is_sub(t, declared):
                    label, legal = 'member-subtype', True
                else:
                    label, legal = 'member-wrong-type', False
                    if count:
                        kind = ('supertype' if lang.is_sub(declared, t) else
                                ('sibling' if lang.lca(t, declared) else 'unrelated'))
                        res.count('wrong-type:' + kind)
                other = rng.choice(rconc if side == 'left' else lconc)
                model, (x, y) = fresh([t, other])
                f = attempt(label, legal, model, [x] if side == 'left' else [y], [y] if side == 'left' else [x])
                if f:
                    return f
        # maximum multiplicity
        for side, mult, okconc, oconc in (('left', a['leftMultiplicity'], lconc, rconc), ('right', a['rightMultiplicity'], rconc, lconc)):
            mx = mult['max']
            if mx is None or mx > 3:
                continue
            for n, label, legal in ((mx, 'at-max', True), (mx + 1, 'over-max', False)):
                if n == 0:
                    continue
                types = [rng.choice(okconc) for _ in range(n)] + [rng.choice(oconc)]
                model, objs = fresh(types)
                many, one = objs[:-1], [objs[-1]]
                f = attempt(label, legal, model, many if side == 'left' else one, one if side == 'left' else many)
                if f:
                    return f
        # same asset twice in a field
        for side, mult, okconc, oconc in (('left', a['leftMultiplicity'], lconc, rconc), ('right', a['rightMultiplicity'], rconc, lconc)):
            if mult['max'] is not None and mult['max'] < 2:
                continue
            model, (x, y) = fresh([rng.choice(okconc), rng.choice(oconc)])
            f = attempt('dup-in-field', False, model, [x, x] if side == 'left' else [y], [y] if side == 'left' else [x, x])
            if f:
                return f
            # ... also when the other field has no member, and when the repetition is not adjacent
            model, (x, y, z) = fresh([rng.choice(okconc), rng.choice(oconc), rng.choice(okconc)])
            f = attempt('dup-in-field', False, model, [x, x] if side == 'left' else [], [] if side == 'left' else [x, x])
            if f:
                return (f[0] + ':other-field-empty', f[1])
            if mult['max'] is None or mult['max'] >= 3:
                f = attempt('dup-in-field', False, model, [x, z, x] if side == 'left' else [y], [y] if side == 'left' else [x, z, x])
                if f:
                    return (f[0] + ':not-adjacent', f[1])
        # an already existing link: identical instance, and the pair inside a larger instance
        model, (x, y) = fresh([rng.choice(lconc), rng.choice(rconc)])
        f = attempt('first-link', True, model, [x], [y])
        if f:
            return f
        f = attempt('dup-link', False, model, [x], [y])
        if f:
            return f
        # ... also after calls that were refused in between (an asset of the model added again under its own id, the
        # duplicate itself a second time)
        model, (x, y) = fresh([rng.choice(lconc), rng.choice(rconc)])
        if attempt('first-link', True, model, [x], [y]) is None:
            for obj in (x, y):
                try:
                    model.add_asset(obj, asset_id=int(obj.id))
                except Exception:
                    if count:
                        res.count('refused-call-before-the-attempt')
            f = attempt('dup-link', False, model, [x], [y])
            if f:
                return (f[0] + ':after-refused-calls', f[1])
            f = attempt('dup-link', False, model, [x], [y])
            if f:
                return (f[0] + ':after-refused-calls', f[1])
        model, (x, y) = fresh([rng.choice(lconc), rng.choice(rconc)])
        f = attempt('first-link', True, model, [x], [y])
        if (a['leftMultiplicity']['max'] is None or a['leftMultiplicity']['max'] >= 2):
            z = getattr(ns, rng.choice(lconc))(name='z')
            model.add_asset(z)
            f = attempt('dup-link', False, model, [z, x], [y])
            if f:
                return f
        # the duplicate is held by a LATER association of the same left asset
        if a['rightMultiplicity']['max'] is None or a['rightMultiplicity']['max'] >= 2 or True:
            model, objs = fresh([rng.choice(lconc), rng.choice(rconc), rng.choice(rconc), rng.choice(lconc)])
            x, y1, y2, x2 = objs
            if attempt('first-link', True, model, [x], [y1]) is None and attempt('first-link', True, model, [x], [y2]) is None:
                f = attempt('dup-link', False, model, [x], [y2])
                if f:
                    return (f[0] + ':held-by-later-association', f[1])
                if a['leftMultiplicity']['max'] is None or a['leftMultiplicity']['max'] >= 2:
                    f = attempt('dup-link', False, model, [x2, x], [y2])
                    if f:
                        return (f[0] + ':held-by-later-association', f[1])
        # X = [a1, a2] -> [b1], Y = [a1] -> [b2]; a1 leaves X (X survives); Y's link a1 -> b2 must still be known
        if a['leftMultiplicity']['max'] is None or a['leftMultiplicity']['max'] >= 2:
            model, objs = fresh([rng.choice(lconc), rng.choice(lconc), rng.choice(rconc), rng.choice(rconc)])
            a1, a2, b1, b2 = objs
            if attempt('first-link', True, model, [a1, a2], [b1]) is None and attempt('first-link', True, model, [a1], [b2]) is None:
                try:
                    model.remove_asset_from_association(a1, model.associations[0])
                except Exception as exc:
                    return ('model.remove_asset_from_association:raised', 'raised %r' % (exc,))
                f = attempt('dup-link', False, model, [a1], [b2])
                if f:
                    return (f[0] + ':after-partial-removal', f[1])
        # ... also after an unrelated removal that leaves another instance of the class
        model, objs = fresh([rng.choice(lconc), rng.choice(rconc), rng.choice(lconc), rng.choice(rconc)])
        x, y, x2, y2 = objs
        if attempt('first-link', True, model, [x], [y]) is None and attempt('first-link', True, model, [x2], [y2]) is None:
            try:
                model.remove_association(model.associations[-1])
            except Exception as exc:
                return ('model.remove_association:raised', 'remove_association raised %r' % (exc,))
            f = attempt('dup-link', False, model, [x], [y])
            if f:
                return (f[0] + ':after-removal', f[1])
            f = attempt('relink-after-removal', True, model, [x2], [y2])
            if f:
                return f
    return None


def _check_case(spec, seed, res, count=True):
    import random
    from maltoolbox.language import LanguageGraph, LanguageClassesFactory
    lang = Lang(spec)
    try:
        from ..stream import language_graph_by_route
        lg, _given = language_graph_by_route({'spec': spec}, copy.deepcopy(spec))
        factory = LanguageClassesFactory(lg)
    except Exception as exc:
        return ('build:raised-%s' % type(exc).__name__, 'building classes for a well-formed language raised %r' % (exc,))
    same = [a for a in lang.assocs if a['leftField'] == a['rightField']]
    if same:
        # X [f] <-- A --> [f] Y (legal MAL: every asset type still has one field f).  Only this is observed for such
        # a language: does the generated class expose the two ends?
        if count:
            res.count('langs-with-same-field-name-at-both-ends')
        a = same[0]
        sch = factory.json_schema['definitions']['LanguageAssociation']['definitions'].get(a['name'], {})
        entries = [sch] + list(sch.get('definitions', {}).values())
        if not any(len(e.get('properties', {})) >= 2 for e in entries):
            return ('classes.associations:same-field-name-both-ends',
                    'association %s: %s [%s] <--> [%s] %s uses one field name for both ends; the generated class has the properties %s: '
                    'the two ends cannot be told apart (instantiating asset classes of such a language can fail as well)' % (
                        a['name'], a['leftAsset'], a['leftField'], a['rightField'], a['rightAsset'],
                        [sorted(e.get('properties', {})) for e in entries]))
        return None
    f = check_classes(lang, factory, res, count)
    if f:
        return f
    return attempts(random.Random(seed), lang, factory, res, count)


check_case = safe(_check_case)


def run(rng, res, tier, shard, nshards):
    from maltoolbox.language import LanguageClassesFactory
    from maltoolbox.model import Model
    reach = Reach()
    reach.add('LanguageClassesFactory._generate_assets', LanguageClassesFactory._generate_assets)
    reach.add('LanguageClassesFactory._generate_associations', LanguageClassesFactory._generate_associations)
    reach.add('LanguageClassesFactory.get_association_by_signature', LanguageClassesFactory.get_association_by_signature)
    reach.add('Model._validate_association', Model._validate_association)
    reach.start()
    budget = Budget(CASES[tier] // nshards + 1, SECONDS[tier])
    first_round = True
    while budget.more():
        if first_round and shard == 0:
            spec, src = corelang_spec('core'), 'corelang'
        else:
            spec, src = gen_language(rng, Cfg(max_assets=6, max_assocs=6, max_depth=1, dup_assoc_names=0.4, same_sig_dups=rng.choice([0.0, 0.0, 0.0, 0.5]), same_field_both_ends=rng.choice([0.0, 0.0, 0.0, 0.15]),
                                              inherit_bias=rng.choice([0.5, 0.8]))), 'generated'
        first_round = False
        seed = rng.randrange(10 ** 9)
        f = check_case(spec, seed, res)
        lang = Lang(spec)
        nt = bool(lang.assocs) and any(lang.defenses(t) for t in lang.order)
        res.case(digest(spec) if nt else None)
        if res.evaluations <= 2 and src == 'generated':
            res.sample({'assets': {t: {'parent': lang.parent[t], 'defenses': lang.defenses(t)} for t in lang.order},
                        'associations': [(lang.assoc_class_name(i), a['leftAsset'], a['leftField'], a['leftMultiplicity'], a['rightAsset'], a['rightField'], a['rightMultiplicity']) for i, a in enumerate(lang.assocs)]})
        if f:
            res.violation(f[0], f[1], {'spec': spec if src == 'generated' else 'corelang', 'seed': seed})
    if budget.timed_out():
        res.notes['time-cap-hit'] = True
    reach.stop()
    res.reach = dict(reach.counts)


def replay(case, res):
    spec = corelang_spec('core') if case['spec'] == 'corelang' else case['spec']
    f = check_case(spec, case['seed'], res)
    res.case(None)
    if f:
        res.violation(f[0], f[1], case)

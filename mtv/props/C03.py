"""C03 - step inheritance resolves override/extend correctly and the lookup is pure."""
from __future__ import annotations

import copy

from ..mon import Watch, Reach
from ..ref_sem import Lang, AModel, final_step
from ..result import Budget, digest, safe
from ..stream import Built, TooExpensive, cpu_budget, CASE_CPU_S
from ..gen_lang import gen_language, Cfg
from ..gen_model import gen_amodel, build_real, MCfg

META = {
    'rule': ('inheritance-heavy random languages (chains up to depth 5; absent / no-reaches / -> / +> redefinitions at '
             'every level, roots with and without a reaches clause) x random histories (length 1-30) of step lookups '
             'in random order with repeats, LanguageGraph() again on the same dict, regenerate_graph(), class factory, '
             'attack-graph generation and regeneration for random models, bursts of 300-2500 lookups on one graph (languages with sub-types that declare nothing of their own); the children of every language-graph step are compared with the final steps of the folded expressions; every return value of the resolver is '
             'compared with a reference fold computed on a load-time deep snapshot, and the loaded specification is '
             'deep-compared with the snapshot after every step; non-trivial = the language has a step redefined at '
             '>= 1 level and the history has >= 2 steps; distinct = digest(spec, history)'
             '; added strata: bursts of 300-2500 lookups, sub-types that declare nothing, another language with the same names loaded in between, one AttackGraph object re-used for two languages'
             '; round 7: the first language graph of a case is built through one of four routes (dict, .mar archive rewritten at one path, saved specification, MAL source)'),
    'assumptions': ['reference fold in mtv/ref_sem.py (Lang.steps)'],
    'shards': {'quick': 8, 'thorough': 16},
    'quotas': {
        'quick': {'lookups-compared': 2000, 'redef:extend': 50, 'redef:override': 50, 'redef:none': 20,
                  'chain:reachesless-extended-twice': 5, 'op:lookup': 100, 'op:newgraph': 20, 'op:regen': 20,
                  'op:attackgraph': 20, 'spec-snapshots-compared': 1000, 'class:over-1000-lookups-on-one-graph': 10,
                  'class:many-lookups-through-a-type-without-own-steps': 6, 'langgraph-links-compared-with-fold': 10000},
        'thorough': {'lookups-compared': 200000, 'redef:extend': 5000, 'redef:override': 5000, 'redef:none': 2000,
                     'chain:reachesless-extended-twice': 500, 'op:lookup': 10000, 'op:newgraph': 2000,
                     'op:regen': 2000, 'op:attackgraph': 2000, 'spec-snapshots-compared': 100000},
    },
}
CASES = {'quick': 900, 'thorough': 60000}
SECONDS = {'quick': 300, 'thorough': 600}


def classify_language(lang, res):
    """evidence: which redefinition shapes does this language contain"""
    twice = False
    for t in lang.order:
        p = lang.parent[t]
        if not p:
            continue
        inh = lang.steps(p)
        for s in lang.assets[t]['attackSteps']:
            if s['name'] in inh:
                kind = 'none' if not s['reaches'] else ('override' if s['reaches']['overrides'] else 'extend')
                res.count('redef:' + kind)
                res.count('redef-depth:%d' % lang.depth(t))
    # chains where a reaches-less step is extended at two levels (the F7 shape)
    for t in lang.order:
        chain = list(reversed(lang.ancestors(t)))
        for name in lang.steps(t):
            state = None   # None -> 'reachesless' -> 'ext1' -> 'ext2'
            for x in chain:
                for s in lang.assets[x]['attackSteps']:
                    if s['name'] != name:
                        continue
                    if state is None:
                        state = 'reachesless' if not s['reaches'] else 'other'
                    elif s['reaches'] and not s['reaches']['overrides']:
                        if state == 'reachesless':
                            state = 'ext1'
                        elif state == 'ext1':
                            state = 'ext2'
                    elif s['reaches'] and s['reaches']['overrides']:
                        state = 'other'
            if state == 'ext2':
                twice = True
    if twice:
        res.count('chain:reachesless-extended-twice')
    return twice


def gen_history(rng, lang, n):
    ops = []
    for _ in range(n):
        r = rng.random()
        if r < 0.45:
            ops.append(['lookup', rng.choice(lang.order)])
        elif r < 0.55:
            ops.append(['lookup-all', rng.random() < 0.5])
        elif r < 0.65:
            ops.append(['regen'])
        elif r < 0.75:
            ops.append(['newgraph'])
        elif r < 0.8:
            ops.append(['factory'])
        elif r < 0.90:
            ops.append(['attackgraph', rng.randrange(10 ** 6)])
        elif r < 0.94:
            ops.append(['other-language', rng.randrange(10 ** 6)])
        elif r < 0.97:
            ops.append(['ag-reuse', rng.randrange(10 ** 6)])
        else:
            ops.append(['ag-regen'])
    if rng.random() < 0.12:
        # the k-th call: hundreds to thousands of lookups on one graph
        ops.insert(rng.randrange(len(ops) + 1), ['lookup-many', rng.randrange(10 ** 6), rng.choice([300, 700, 1200, 2500])])
    return ops


def first_diff(a, b, path=''):
    if type(a) != type(b):
        return '%s: %r vs %r' % (path, a, b)
    if isinstance(a, dict):
        for k in a:
            if k not in b:
                return '%s: key %r missing on the right' % (path, k)
        for k in b:
            if k not in a:
                return '%s: extra key %r on the right' % (path, k)
        for k in a:
            d = first_diff(a[k], b[k], path + '/' + str(k))
            if d:
                return d
        return None
    if isinstance(a, list):
        if len(a) != len(b):
            return '%s: list length %d vs %d' % (path, len(a), len(b))
        for i, (x, y) in enumerate(zip(a, b)):
            d = first_diff(x, y, '%s[%d]' % (path, i))
            if d:
                return d
        return None
    return None if a == b else '%s: %r vs %r' % (path, a, b)


def _check_case(case, res, count=True):
    """case = {spec, history}; returns first (key, what) or None"""
    import random
    from maltoolbox.language import LanguageGraph, LanguageClassesFactory
    from maltoolbox.model import Model
    from maltoolbox.attackgraph import AttackGraph
    lang = Lang(case['spec'])                      # load-time snapshot (deep copy inside)
    keep = []                                      # language graphs of the other language (interference)
    building_other = [False]
    given = copy.deepcopy(case['spec'])            # the dict the toolbox owns
    first = [None]

    def diverge(key, what):
        if first[0] is None:
            first[0] = (key, what)

    def after(token, args, kwargs, result):
        t = args[1] if len(args) > 1 else kwargs['asset_type']
        if t not in lang.assets or any(args[0] is x for x in keep) or building_other[0]:
            return          # (a graph of the other language)
        want = lang.steps(t)
        if count:
            res.count('lookups-compared')
        if result != want or list(result) != list(want):
            d = first_diff(want, result)
            own = {s['name'] for s in lang.assets[t]['attackSteps']}
            diverge('langgraph.steps:wrong-fold', 'steps of %s differ from the root-down fold at %s' % (t, d))

    w = Watch(LanguageGraph, '_get_attacks_for_asset_type', after=after, outermost=True, group='c03')
    try:
        def snap(step):
            if count:
                res.count('spec-snapshots-compared')
            for g in graphs:
                if g._lang_spec != lang.spec:
                    diverge('langgraph.spec:modified',
                            'loaded specification changed after %s at %s' % (step, first_diff(lang.spec, g._lang_spec)))

        def check_assets(g, step):
            for a in g.assets:
                want = lang.steps(a.name)
                got = {s.name: s for s in a.attack_steps}
                if list(got) != list(want):
                    diverge('langgraph.asset.attack_steps:wrong-set',
                            'after %s: %s exposes %s, expected %s' % (step, a.name, list(got), list(want)))
                    continue
                for n, s in got.items():
                    if s.type != want[n]['type'] or s.ttc != want[n]['ttc'] or s.attributes != want[n]:
                        diverge('langgraph.asset.attack_steps:wrong-attributes',
                                'after %s: %s.%s differs: %s' % (step, a.name, n, first_diff(want[n], s.attributes)))
                    # what the step leads to in the language graph = the final steps of the folded expressions
                    want_targets = sorted(set(final_step(e) for e in ((want[n]['reaches'] or {}).get('stepExpressions') or [])))
                    got_targets = sorted(s.children)
                    if count:
                        res.count('langgraph-links-compared-with-fold')
                    if got_targets != want_targets or any(tg.name != k for k, lst in s.children.items() for (tg, _c) in lst):
                        diverge('langgraph.asset.attack_steps:links-differ-from-fold',
                                'after %s: %s:%s leads to %s in the language graph, the folded definition leads to %s' % (
                                    step, a.name, n, [(k, [tg.asset.name + ':' + tg.name for (tg, _c) in lst]) for k, lst in sorted(s.children.items())], want_targets))

        def check_assets_attrs_only(g, step):
            for a in g.assets:
                want = lang.steps(a.name)
                got = g._get_attacks_for_asset_type(a.name)
                if got != want:
                    diverge('langgraph.steps:wrong-fold', 'after %s: steps of %s differ from the fold at %s' % (step, a.name, first_diff(want, got)))

        graphs = []
        try:
            from ..stream import language_graph_by_route
            g0, given = language_graph_by_route(case, given)     # constructor, .mar archive, saved specification or MAL source
        except Exception as exc:
            return ('build:raised-%s' % type(exc).__name__, 'LanguageGraph() raised %r on a well-formed language' % (exc,))
        graphs.append(g0)
        snap('load')
        check_assets(g0, 'load')
        factory = None
        ag = None
        for i, op in enumerate(case['history']):
            if first[0]:
                break
            g = graphs[-1]
            if count:
                res.count('op:' + op[0].split('-')[0] if op[0] != 'ag-regen' else 'op:ag-regen')
            try:
                if op[0] == 'lookup':
                    r1 = g._get_attacks_for_asset_type(op[1])
                    r2 = g._get_attacks_for_asset_type(op[1])
                    if r1 != r2:
                        diverge('langgraph.steps:two-calls-disagree', 'two consecutive lookups of %s disagree' % op[1])
                elif op[0] == 'lookup-all':
                    order = list(lang.order)
                    if op[1]:
                        order.reverse()
                    for t in order:
                        g._get_attacks_for_asset_type(t)
                elif op[0] == 'lookup-many':
                    rng3 = random.Random(op[1])
                    for _ in range(op[2]):
                        g._get_attacks_for_asset_type(rng3.choice(lang.order))
                    if count:
                        res.count('class:over-%d-lookups-on-one-graph' % (1000 if op[2] > 1000 else 300))
                        if any(not lang.assets[t]['attackSteps'] and lang.parent[t] for t in lang.order):
                            res.count('class:many-lookups-through-a-type-without-own-steps')
                elif op[0] == 'regen':
                    g.regenerate_graph()
                    check_assets(g, 'regenerate_graph')
                elif op[0] == 'newgraph':
                    g2 = LanguageGraph(given)     # same dict object again
                    graphs.append(g2)
                    check_assets(g2, 'second LanguageGraph on the same dict')
                elif op[0] == 'factory':
                    factory = LanguageClassesFactory(g)
                elif op[0] == 'attackgraph':
                    rng2 = random.Random(op[1])
                    am = gen_amodel(rng2, lang, MCfg(max_assets=5, attackers=0.0))
                    fac = LanguageClassesFactory(g)
                    model, objs = build_real(lang, am, fac, Model, None)
                    with cpu_budget(CASE_CPU_S):
                        ag = AttackGraph(g, model)
                    rev = {id(o): a2 for a2, o in objs.items()}
                    per_asset = {}
                    for n in ag.nodes:
                        per_asset.setdefault(rev.get(id(n.asset)), {})[n.name] = n
                    for a2 in am.assets:
                        want = lang.steps(a2['type'])
                        got = per_asset.get(a2['id'], {})
                        if list(got) != list(want):
                            diverge('attackgraph.steps:asset-exposes-other-steps',
                                    'asset %s of type %s exposes %s in the attack graph, the fold gives %s' % (a2['id'], a2['type'], list(got), list(want)))
                            break
                        for sn, node in got.items():
                            if node.attributes != want[sn]:
                                diverge('attackgraph.steps:node-attributes-differ-from-fold',
                                        'asset %s (%s) step %s: %s' % (a2['id'], a2['type'], sn, first_diff(want[sn], node.attributes)))
                    if count:
                        res.count('attackgraph-nodes-compared-with-fold', len(ag.nodes))
                elif op[0] == 'other-language':
                    # another language with the same type / step names is loaded (and one that is refused) while the
                    # graphs under test stay in use
                    from ..stream import variant_spec, illformed_variant
                    rng4 = random.Random(op[1])
                    building_other[0] = True
                    try:
                        LanguageGraph(illformed_variant(case['spec']))
                    except Exception:
                        pass
                    finally:
                        building_other[0] = False
                    building_other[0] = True
                    try:
                        other = LanguageGraph(variant_spec(case['spec'], rng4))
                    finally:
                        building_other[0] = False
                    keep.append(other)
                    if rng4.random() < 0.5:
                        other.regenerate_graph()
                    for t in lang.order[:2]:
                        other._get_attacks_for_asset_type(t)
                    for g3 in graphs:
                        check_assets_attrs_only(g3, 'another language was loaded')
                elif op[0] == 'ag-reuse':
                    # one AttackGraph object is used for the other language first, then pointed at this one and regenerated
                    from ..stream import variant_spec
                    rng4 = random.Random(op[1])
                    building_other[0] = True
                    try:
                        other = LanguageGraph(variant_spec(case['spec'], rng4))
                    finally:
                        building_other[0] = False
                    keep.append(other)
                    am = gen_amodel(rng4, lang, MCfg(max_assets=4, attackers=0.0))
                    m_other, _o = build_real(lang, am, LanguageClassesFactory(other), Model, None)
                    fac = LanguageClassesFactory(g)
                    model, objs = build_real(lang, am, fac, Model, None)
                    with cpu_budget(2 * CASE_CPU_S):
                        ag2 = AttackGraph(other, m_other)
                        ag2.lang_graph = g
                        ag2.model = model
                        ag2.regenerate_graph()
                    rev = {id(o): a2 for a2, o in objs.items()}
                    for n in ag2.nodes:
                        a2 = am.asset(rev.get(id(n.asset)))
                        want = lang.steps(a2['type']).get(n.name) if a2 else None
                        if want is None or n.attributes != want:
                            diverge('attackgraph.steps:node-attributes-differ-from-fold',
                                    'an AttackGraph object used for another language before, then given this language graph and model and '
                                    'regenerated: node %s: %s' % (n.full_name, first_diff(want, n.attributes) if want else 'step unknown to the fold'))
                            break
                    per = {}
                    for n in ag2.nodes:
                        per.setdefault(rev.get(id(n.asset)), []).append(n.name)
                    for a2 in am.assets:
                        if sorted(per.get(a2['id'], [])) != sorted(lang.steps(a2['type'])):
                            diverge('attackgraph.steps:asset-exposes-other-steps',
                                    're-used AttackGraph object: asset %s of type %s exposes %s, the fold gives %s' % (
                                        a2['id'], a2['type'], sorted(per.get(a2['id'], [])), sorted(lang.steps(a2['type']))))
                            break
                elif op[0] == 'ag-regen':
                    if ag is not None:
                        with cpu_budget(CASE_CPU_S):
                            ag.regenerate_graph()
            except TooExpensive:
                ag = None
                if count:
                    res.count('skipped:too-expensive-op')
            except Exception as exc:
                diverge('history:raised-%s' % type(exc).__name__, 'step %d %s raised %r' % (i, op, exc))
            snap('step %d %s' % (i, op))
        # final sweep: every type, every graph
        for g in graphs:
            for t in lang.order:
                g._get_attacks_for_asset_type(t)
        snap('final sweep')
    finally:
        w.remove()
        for e in w.errors:
            res.inconc('monitor error %s' % (e,))
    return first[0]


check_case = safe(_check_case)


def run(rng, res, tier, shard, nshards):
    from maltoolbox.language import LanguageGraph
    import maltoolbox.attackgraph.attackgraph as agmod
    reach = Reach()
    reach.add('LanguageGraph._get_attacks_for_asset_type', LanguageGraph._get_attacks_for_asset_type)
    reach.add('LanguageGraph._generate_graph', LanguageGraph._generate_graph)
    reach.add('AttackGraph._generate_graph', agmod.AttackGraph._generate_graph)
    reach.start()
    budget = Budget(CASES[tier] // nshards + 1, SECONDS[tier])
    while budget.more():
        cfg = Cfg(max_assets=rng.choice([4, 6, 8]), inherit_bias=rng.choice([0.7, 0.85, 0.95]), max_depth=2,
                  max_assocs=3)
        cfg.large = rng.random() < 0.04         # 10-16 types with a chain of depth 8
        spec = gen_language(rng, cfg)
        lang = Lang(spec)
        hist = gen_history(rng, lang, rng.randint(1, 30))
        case = {'spec': spec, 'history': hist}
        redefs = classify_language(lang, res)
        first = check_case(case, res)
        has_redef = any(s['name'] in lang.steps(lang.parent[t]) for t in lang.order if lang.parent[t]
                        for s in lang.assets[t]['attackSteps'])
        res.case(digest(case) if (has_redef and len(hist) >= 2) else None)
        if res.evaluations <= 2:
            res.sample({'inheritance': {t: lang.parent[t] for t in lang.order},
                        'steps': {t: [s['name'] + ('' if not s['reaches'] else (' ->' if s['reaches']['overrides'] else ' +>'))
                                      for s in lang.assets[t]['attackSteps']] for t in lang.order},
                        'history': hist[:12]})
        if first:
            # shrink the history
            key = first[0]
            h = list(hist)
            i = len(h) - 1
            from ..result import Result
            runs = 0
            while i >= 0 and runs < 40:
                c2 = {'spec': spec, 'history': h[:i] + h[i + 1:]}
                f2 = check_case(c2, Result('C03', 's', 0, 0), count=False)
                runs += 1
                if f2 and f2[0] == key:
                    h = c2['history']
                i -= 1
            res.violation(key, first[1], {'minimised': {'spec': spec, 'history': h}, 'original': case})
    if budget.timed_out():
        res.notes['time-cap-hit'] = True
    reach.stop()
    res.reach = dict(reach.counts)


def replay(case, res):
    for c in (case.get('minimised'), case.get('original', case)):
        if c is None:
            continue
        first = check_case(c, res)
        res.case(None)
        if first:
            res.violation(first[0], first[1], case)
            return

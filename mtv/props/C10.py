"""C10 - saving and loading an attack graph preserves it."""
from __future__ import annotations

import copy
import json
import os
import shutil
import tempfile

from ..mon import Reach
from ..result import Budget, digest, safe
from .. import agraph
from ..stream import PATH_SHAPES, gen_case, Built, TooExpensive, cpu_budget, CASE_CPU_S
from ..gen_lang import Cfg
from ..gen_model import MCfg
from . import C09

META = {
    'rule': ('attack graphs from random languages / models (and coreLang, and hand-built graphs) after random C09 histories '
             '(analysis run, pruned, several attackers incl. two sharing a name, attacker id 0, compromise / undo so that '
             'entry points and reached steps differ, node extras, tags, in-place TTC of every kind) x {json, yml} x {model '
             'given, model absent}: the loaded graph is compared TYPED with the original: per node id, name, type, ttc, '
             'defense_status (float/None), existence_status (bool/None), is_viable / is_necessary (bool), mitre_info, tags '
             '(a list of str), extras, child and parent id sets; attackers by id: name, entry-point ids, reached ids; with a '
             'model every loaded node must be bound to the model asset of the same name (identity); non-trivial = graph with '
             '>= 2 nodes, >= 1 edge and either an attacker or a False flag; distinct = digest(start, history, format, model?)'
             '; added strata: links recorded at one end only, digit-string keys in extras, a smaller graph saved over the same path, path shapes, exotic characters'),
    'assumptions': ['edges are compared as sets (a serialised graph cannot express multiplicity)',
                    'nodes are identified by id; full names must be unique for a graph to be serialisable (C02)'],
    'shards': {'quick': 8, 'thorough': 16},
    'quotas': {
        'quick': {'format:json': 100, 'format:yml': 100, 'with-model': 100, 'without-model': 150, 'class:false-flag': 100,
                  'class:tags': 100, 'class:attackers>=2': 50, 'class:name-sharing-attackers': 20, 'class:attacker-id-0': 30,
                  'class:entry-point-not-reached': 30, 'class:pruned': 50, 'class:extras': 50, 'nodes-compared': 3000,
                  'class:viable-ne-necessary': 50, 'class:serialised-before-last-change': 50,
                  'second-load-after-in-place-edit': 200, 'second-round-trip-after-model-edit': 30},
        'thorough': {'format:json': 15000, 'format:yml': 15000, 'with-model': 10000, 'without-model': 10000,
                     'class:name-sharing-attackers': 1000, 'nodes-compared': 400000},
    },
}
CASES = {'quick': 1200, 'thorough': 60000}
SECONDS = {'quick': 300, 'thorough': 600}


def typed_nodes(g):
    out = {}
    for n in g.nodes:
        out[n.id] = n
    return out


def compare(orig, loaded, model, res, count=True):
    a, b = typed_nodes(orig), typed_nodes(loaded)
    if len(a) != len(orig.nodes) or len(b) != len(loaded.nodes):
        return ('attackgraph.load:duplicate-node-ids', 'node ids are not unique')
    if set(a) != set(b):
        return ('attackgraph.load:node-set', 'loaded node ids %s, saved %s' % (sorted(set(b) - set(a))[:5], sorted(set(a) - set(b))[:5]))
    for i, n in a.items():
        m = b[i]
        if count:
            res.count('nodes-compared')
        if not isinstance(m.id, int) or isinstance(m.id, bool):
            return ('attackgraph.load:id-type', 'node id %r has type %s' % (m.id, type(m.id).__name__))
        for attr in ('name', 'type', 'ttc', 'mitre_info'):
            if getattr(m, attr) != getattr(n, attr):
                return ('attackgraph.load:%s' % attr, 'node %s %s: %r, saved %r' % (i, attr, getattr(m, attr), getattr(n, attr)))
        if n.defense_status is None:
            if m.defense_status is not None:
                return ('attackgraph.load:defense_status', 'node %s defense_status %r, saved None' % (i, m.defense_status))
        elif not isinstance(m.defense_status, float) or m.defense_status != float(n.defense_status):
            return ('attackgraph.load:defense_status', 'node %s defense_status %r (%s), saved %r' % (i, m.defense_status, type(m.defense_status).__name__, n.defense_status))
        if n.existence_status is None:
            if m.existence_status is not None:
                return ('attackgraph.load:existence_status', 'node %s existence_status %r, saved None' % (i, m.existence_status))
        elif m.existence_status is not n.existence_status:
            return ('attackgraph.load:existence_status', 'node %s existence_status %r, saved %r' % (i, m.existence_status, n.existence_status))
        for flag in ('is_viable', 'is_necessary'):
            if not isinstance(getattr(m, flag), bool) or getattr(m, flag) != bool(getattr(n, flag)):
                return ('attackgraph.load:%s' % flag, 'node %s %s %r, saved %r' % (i, flag, getattr(m, flag), getattr(n, flag)))
        if not isinstance(m.tags, list) or any(not isinstance(t, str) for t in m.tags) or list(m.tags) != list(n.tags):
            return ('attackgraph.load:tags', 'node %s tags %r, saved %r' % (i, m.tags, n.tags))
        if (m.extras or {}) != (n.extras or {}):
            return ('attackgraph.load:extras', 'node %s extras %r, saved %r' % (i, m.extras, n.extras))
        for rel in ('children', 'parents'):
            x = {c.id for c in getattr(n, rel)}
            y = {c.id for c in getattr(m, rel)}
            if x != y:
                return ('attackgraph.load:%s' % rel, 'node %s %s %s, saved %s' % (i, rel, sorted(y), sorted(x)))
            for c in getattr(m, rel):
                if not any(c is z for z in loaded.nodes):
                    return ('attackgraph.load:%s-outside-graph' % rel, 'node %s has a %s entry outside the loaded graph' % (i, rel))
        if model is not None and n.asset is not None:
            want = model.get_asset_by_name(str(n.asset.name))
            if m.asset is None or m.asset is not want:
                return ('attackgraph.load:asset-binding', 'node %s is not bound to the model asset named %r' % (i, str(n.asset.name)))
        if model is None and m.asset is not None:
            return ('attackgraph.load:asset-binding', 'node %s has an asset although no model was given' % i)
        xa = sorted(t.id for t in n.compromised_by)
        ya = sorted(t.id for t in m.compromised_by)
        if xa != ya:
            return ('attackgraph.load:compromised_by', 'node %s compromised by %s, saved %s' % (i, ya, xa))
    A = {t.id: t for t in orig.attackers}
    B = {t.id: t for t in loaded.attackers}
    if set(A) != set(B) or len(B) != len(loaded.attackers):
        names = [t.name for t in orig.attackers]
        key = 'attackgraph.load:attackers-keyed-by-name' if len(set(names)) != len(names) else 'attackgraph.load:attacker-set'
        return (key, 'loaded attacker ids %s, saved %s (names %s)' % (sorted(B), sorted(A), names))
    for i, t in A.items():
        u = B[i]
        if u.name != t.name:
            return ('attackgraph.load:attacker-name', 'attacker %s name %r, saved %r' % (i, u.name, t.name))
        for rel, key in (('entry_points', 'entry-points'), ('reached_attack_steps', 'reached')):
            x = sorted({n.id for n in getattr(t, rel)})
            y = sorted({n.id for n in getattr(u, rel)})
            if x != y or len(y) != len(getattr(u, rel)):
                return ('attackgraph.load:attacker-%s' % key, 'attacker %s %s %s, saved %s' % (i, rel, y, x))
    if agraph.check_invariants(orig) is None:
        f = agraph.check_invariants(loaded) or agraph.check_compromise_symmetry(loaded)
        if f:
            return ('attackgraph.load:' + f[0], 'loaded graph: ' + f[1])
    return None


def _check_case(case, res, count=True):
    from maltoolbox.attackgraph import AttackGraph
    start = tuple(case['start'])
    world = C09.World(res, False)
    model = None
    if start[0] == 'desc':
        g, _ = agraph.build(start[1])
        world.add_graph(g, None)
    else:
        try:
            built = Built(start[1], attackers=True, explicit_ids=True)
            g = built.attack_graph()
        except TooExpensive:
            if count:
                res.count('skipped:too-expensive')
            return None
        except Exception as exc:
            return ('build:raised-%s' % type(exc).__name__, 'building a generated case raised %r' % (exc,))
        world.add_graph(g, built)
        model = built.model
    for op in case['history']:
        f = C09.apply(world, op)
        if f:
            return None        # C09's business; this graph is not a valid subject
    g = world.graphs[0]['g']
    # in-place decorations
    import random
    rng = random.Random(case['deco_seed'])
    for n in g.nodes:
        r = rng.random()
        if r < 0.1:
            n.extras = rng.choice([{'x': 1}, {'pos': {'x': 1, 'y': 2.5}}, {'note': 'n', 'l': [1, 2]},
                                   {'443': 'https', 'seen': {'2023': 4, '007': [1]}}, {'0': None, 'true': True, 'null': 'x', '1.5': 2}])
        if r > 0.9:
            n.tags = rng.sample(['hidden', 'suppress', 'trace', 't1', "it's", 'a b'], rng.randint(1, 3))
    if case.get('readd_node') is not None and g.nodes:
        # a node object is taken out of the graph and put back under its id: it keeps its own child / parent lists,
        # its neighbours dropped theirs - links recorded at one end only are what the file has to give back
        n0 = g.nodes[case['readd_node'] % len(g.nodes)]
        if n0.children or n0.parents:
            g.remove_node(n0)
            g.add_node(n0, node_id=n0.id)
            if count:
                res.count('class:links-recorded-at-one-end-only')
    names = [n.full_name for n in g.nodes]
    if len(set(names)) != len(names):
        return None            # not serialisable by design (keyed by full name); C02 guards uniqueness
    use_model = case['with_model'] and model is not None
    if count:
        res.count('format:' + case['fmt'])
        res.count('with-model' if use_model else 'without-model')
        if any(not n.is_viable or not n.is_necessary for n in g.nodes):
            res.count('class:false-flag')
        if any(n.is_viable != n.is_necessary for n in g.nodes):
            res.count('class:viable-ne-necessary')
        if any(n.tags for n in g.nodes):
            res.count('class:tags')
        if any(n.extras for n in g.nodes):
            res.count('class:extras')
        if len(g.attackers) >= 2:
            res.count('class:attackers>=2')
        an = [a.name for a in g.attackers]
        if len(set(an)) != len(an):
            res.count('class:name-sharing-attackers')
        if any(a.id == 0 for a in g.attackers) and len(g.attackers) >= 2:
            res.count('class:attacker-id-0')
        if any(any(not any(e is r for r in a.reached_attack_steps) for e in a.entry_points) for a in g.attackers):
            res.count('class:entry-point-not-reached')
        if any(op[0] == 'prune' for op in case['history']):
            res.count('class:pruned')
        kinds = [op[0] for op in case['history']]
        if 'serialise' in kinds and any(k in ('compromise', 'undo', 'node_compromise', 'analyse') for k in kinds[kinds.index('serialise') + 1:]):
            res.count('class:serialised-before-last-change')
    d = tempfile.mkdtemp(prefix='c10-', dir=os.getcwd())
    from ..stream import shaped_path
    shape = shaped_path(d, 'g.' + case['fmt'], case.get('path_shape', 'abs'))
    try:
        path = shape.__enter__()
        if count:
            res.count('path-shape:' + case.get('path_shape', 'abs'))
        before = agraph.snapshot(g)
        try:
            g.save_to_file(path)
        except Exception as exc:
            return ('attackgraph.save:raised-%s' % type(exc).__name__, 'save_to_file(.%s) raised %r' % (case['fmt'], exc))
        if agraph.snapshot(g) != before:
            return ('attackgraph.save:graph-changed', 'saving changed the graph: %s' % agraph.snap_diff(before, agraph.snapshot(g)))
        try:
            g2 = AttackGraph.load_from_file(path, model if use_model else None)
        except Exception as exc:
            return ('attackgraph.load:raised-%s' % type(exc).__name__, 'load_from_file(.%s, model=%s) raised %r' % (case['fmt'], use_model, exc))
        f = compare(g, g2, model if use_model else None, res, count)
        if f:
            return f
        # edit the loaded graph in place, then load the same file again: the second load must not see the edits
        for n in g2.nodes:
            if isinstance(n.tags, list):
                n.tags.append('edited-after-load')
            if isinstance(n.extras, dict):
                n.extras['edited-after-load'] = True
        try:
            g3 = AttackGraph.load_from_file(path, model if use_model else None)
        except Exception as exc:
            return ('attackgraph.load:raised-%s' % type(exc).__name__, 'second load_from_file raised %r' % (exc,))
        if count:
            res.count('second-load-after-in-place-edit')
        f = compare(g, g3, model if use_model else None, res, False)
        if f:
            return (f[0] + ':second-load', 'second load of the same file after the first loaded graph was edited in place: ' + f[1])
        # the graph shrinks (nodes removed, attackers removed) and is saved to the SAME path again: the file must hold
        # the smaller graph only
        if case.get('shrink_and_resave') and len(g.nodes) >= 2 and agraph.check_invariants(g) is None:
            srng = random.Random(case['shrink_and_resave'])
            for n0 in srng.sample(list(g.nodes), max(1, len(g.nodes) // 2)):
                g.remove_node(n0)
            for t0 in list(g.attackers)[1:]:
                g.remove_attacker(t0)
            for n0 in g.nodes:
                n0.extras = {}
            try:
                g.save_to_file(path)
                g6 = AttackGraph.load_from_file(path, model if use_model else None)
            except Exception as exc:
                return ('attackgraph.load:raised-%s:same-path-after-shrinking' % type(exc).__name__,
                        'the graph lost nodes and was saved to the same path again; save / load raised %r' % (exc,))
            if count:
                res.count('class:smaller-graph-saved-over-the-same-path')
            f = compare(g, g6, model if use_model else None, res, False)
            if f:
                return (f[0] + ':same-path-after-shrinking', 'smaller graph saved to the same path again: ' + f[1])
        # the model is edited (an asset replaced by another one: same asset count), the graph regenerated, saved and loaded again
        if use_model and start[0] == 'case' and case.get('edit_model') and model.assets:
            from maltoolbox.attackgraph import AttackGraph as AG
            old = model.assets[case['edit_model'] % len(model.assets)]
            typ = str(old.type)
            try:
                model.remove_asset(old)
                new = getattr(world.graphs[0]['built'].factory.ns, typ)(name='replacement asset')
                model.add_asset(new)
                with cpu_budget(CASE_CPU_S):
                    g4 = AG(world.graphs[0]['built'].lang_graph, model)
                p4 = os.path.join(d, 'g4.' + case['fmt'])
                g4.save_to_file(p4)
                g5 = AG.load_from_file(p4, model)
            except TooExpensive:
                return None
            except Exception as exc:
                return ('attackgraph.load:raised-%s:after-model-edit' % type(exc).__name__,
                        'after replacing an asset of the model, regenerating, saving and loading with the model: %r' % (exc,))
            if count:
                res.count('second-round-trip-after-model-edit')
            f = compare(g4, g5, model, res, False)
            if f:
                return (f[0] + ':after-model-edit', 'second round trip with the same (edited) Model object: ' + f[1])
    finally:
        shape.__exit__(None, None, None)
        shutil.rmtree(d, ignore_errors=True)
    return None


check_case = safe(_check_case)


def gen_case10(rng):
    r = rng.random()
    if r < 0.65:
        case = gen_case(rng, Cfg(max_depth=2, max_assets=5), MCfg(max_assets=6, attackers=0.8, hostile_names=0.2), corelang_share=0.06)
        start = ['case', case]
    else:
        start = ['desc', agraph.gen_desc(rng, rng.choice([3, 5, 8, 12]))]
    hist = []
    if start[0] == 'case' and rng.random() < 0.8:
        hist.append(['attach'])
        if rng.random() < 0.3:
            hist.append(['attach'])      # attackers sharing names
    for _ in range(rng.randint(0, 12)):
        r = rng.random()
        if r < 0.3:
            hist.append([rng.choice(['compromise', 'compromise', 'undo', 'node_compromise']), rng.randrange(1000), rng.randrange(1000)])
        elif r < 0.45:
            hist.append(['add_attacker', rng.choice(['A', 'B', 'A']), rng.choice([None, 0, 5]), [rng.randrange(100) for _ in range(rng.randint(0, 2))], [rng.randrange(100) for _ in range(rng.randint(0, 3))]])
        elif r < 0.5:
            hist.append(['serialise'])       # an earlier serialisation must not influence a later one
        elif r < 0.6:
            hist.append(['analyse'])
        elif r < 0.7:
            hist.append(['prune'])
        elif r < 0.8:
            hist.append(['remove_node', rng.randrange(1000)])
        elif r < 0.9:
            hist.append(['add_node', rng.choice([None, 'fresh']), 'nolink'] if False else ['add_node', rng.choice([None, 'fresh'])])
        else:
            hist.append(['remove_attacker', rng.randrange(10)])
    return {'start': start, 'history': hist, 'fmt': rng.choice(['json', 'yml']), 'with_model': rng.random() < 0.5,
            'deco_seed': rng.randrange(10 ** 9), 'edit_model': rng.randrange(1, 1000) if rng.random() < 0.5 else None,
            'readd_node': rng.randrange(1000) if rng.random() < 0.1 else None, 'path_shape': rng.choice(PATH_SHAPES),
            'shrink_and_resave': rng.randrange(1, 10 ** 9) if rng.random() < 0.3 else None}


def run(rng, res, tier, shard, nshards):
    import maltoolbox.attackgraph.attackgraph as agmod
    from maltoolbox.attackgraph.node import AttackGraphNode
    from maltoolbox.attackgraph.attacker import Attacker
    reach = Reach()
    reach.add('AttackGraphNode.to_dict', AttackGraphNode.to_dict)
    reach.add('Attacker.to_dict', Attacker.to_dict)
    reach.add('AttackGraph._to_dict', agmod.AttackGraph._to_dict)
    reach.add('AttackGraph._from_dict', agmod.AttackGraph._from_dict.__func__)
    reach.start()
    budget = Budget(CASES[tier] // nshards + 1, SECONDS[tier])
    while budget.more():
        case = gen_case10(rng)
        f = check_case(case, res)
        nt = True
        res.case(digest(case))
        if len(res.samples) < 3 and len(case['history']) >= 3:
            res.sample({'start': case['start'][0], 'history': case['history'][:10], 'fmt': case['fmt'], 'with_model': case['with_model']})
        if f:
            res.violation(f[0], f[1], case)
    if budget.timed_out():
        res.notes['time-cap-hit'] = True
    reach.stop()
    res.reach = dict(reach.counts)


def replay(case, res):
    f = check_case(case, res)
    res.case(None)
    if f:
        res.violation(f[0], f[1], case)

"""C15 - language graph mirrors the language and over-approximates every attack graph."""
from __future__ import annotations

import copy
import itertools

from ..mon import Reach
from ..ref_sem import Lang, AModel
from ..result import Budget, digest, safe
from ..stream import TooExpensive, gen_case, Built, shrink_case, corelang_spec
from ..gen_lang import gen_language, Cfg
from ..gen_model import MCfg

META = {
    'rule': ('random well-formed languages (+ coreLang) : structural comparison of LanguageGraph with the reference '
             'language (assets, super/sub links, is_subasset_of over all ordered pairs, per-asset association lists, '
             'association lookup by fields and (sub)types in both orientations + negative lookups, child/parent '
             'converse by identity); ill-formed variants (unknown super asset / association end / field / step target / '
             'variable / subtype) must raise; for random models every attack-graph edge must be predicted by a '
             'language-graph link; non-trivial = language has >= 1 association and >= 1 inheritance link; '
             'distinct = digest(spec, model)'
             '; added strata: asset names that are prefixes of one another, one field name at both ends, ill-formed kinds inside variable bodies, and after every reported error the specification is repaired and the SAME graph regenerated; interference layer'),
    'assumptions': ['reference typing in mtv/ref_sem.py', '"reported as errors" = constructing the LanguageGraph raises an Exception (S9)'],
    'shards': {'quick': 8, 'thorough': 16},
    'quotas': {
        'quick': {'subtype-queries': 1000, 'assoc-lookups-positive': 500, 'assoc-lookups-negative': 500,
                  'assoc-lookups-flipped': 200, 'assoc-lookups-subtype': 100, 'converse-links': 1000,
                  'illformed:unknown-super': 10, 'illformed:unknown-assoc-end': 10, 'illformed:unknown-field': 10,
                  'illformed:unknown-step': 10, 'ag-edges-checked': 500, 'illformed-through-regenerate': 100,
                  'illformed:unknown-field-in-variable': 30, 'illformed:unknown-subtype-in-variable': 8, 'illformed:unknown-variable': 30,
                  'illformed:unknown-subtype': 40, 'repaired-and-regenerated': 400, 'class:same-field-name-at-both-ends': 4},
        'thorough': {'subtype-queries': 100000, 'assoc-lookups-positive': 50000, 'assoc-lookups-negative': 50000,
                     'assoc-lookups-flipped': 20000, 'assoc-lookups-subtype': 10000, 'converse-links': 100000,
                     'illformed:unknown-super': 1000, 'illformed:unknown-assoc-end': 1000,
                     'illformed:unknown-field': 1000, 'illformed:unknown-step': 1000, 'ag-edges-checked': 50000},
    },
}
CASES = {'quick': 1200, 'thorough': 80000}
SECONDS = {'quick': 300, 'thorough': 600}


def sig(a):
    return (a['name'], a['leftAsset'], a['leftField'], a['rightAsset'], a['rightField'])


def gsig(a):
    return (a.name, a.left_field.asset.name, a.left_field.fieldname, a.right_field.asset.name, a.right_field.fieldname)


def check_structure(lang, lg, res, count=True):
    names = [a.name for a in lg.assets]
    if sorted(names) != sorted(lang.order):
        return ('langgraph.assets:wrong-set', 'assets %s expected %s' % (names, lang.order))
    by = {a.name: a for a in lg.assets}
    for t in lang.order:
        a = by[t]
        sup = [x.name for x in a.super_assets]
        want = [lang.parent[t]] if lang.parent[t] else []
        if sup != want:
            return ('langgraph.assets:super-link', '%s super_assets %s expected %s' % (t, sup, want))
        sub = sorted(x.name for x in a.sub_assets)
        if sub != sorted(lang.children_of(t)):
            return ('langgraph.assets:sub-link', '%s sub_assets %s expected %s' % (t, sub, sorted(lang.children_of(t))))
        if bool(a.is_abstract) != bool(lang.assets[t]['isAbstract']):
            return ('langgraph.assets:abstract-flag', '%s is_abstract %r' % (t, a.is_abstract))
        allsub = sorted(x.name for x in a.get_all_subassets())
        if sorted(set(allsub)) != sorted(lang.descendants(t)):
            return ('langgraph.assets:get_all_subassets', '%s -> %s expected %s' % (t, allsub, sorted(lang.descendants(t))))
        allsup = sorted(set(x.name for x in a.get_all_superassets()))
        if allsup != sorted(lang.ancestors(t)):
            return ('langgraph.assets:get_all_superassets', '%s -> %s expected %s' % (t, allsup, sorted(lang.ancestors(t))))
    for t, u in itertools.product(lang.order, repeat=2):
        if count:
            res.count('subtype-queries')
        if bool(by[t].is_subasset_of(by[u])) != lang.is_sub(t, u):
            return ('langgraph.subtype:wrong-answer', 'is_subasset_of(%s, %s) = %r' % (t, u, by[t].is_subasset_of(by[u])))
    # associations
    want_assocs = sorted(set(sig(a) for a in lang.assocs))
    got_assocs = sorted(gsig(a) for a in lg.associations)
    if got_assocs != want_assocs:
        missing = [x for x in want_assocs if x not in got_assocs]
        same_ends = [x for x in missing if any(y[0] == x[0] and y[1] == x[1] and y[3] == x[3] for y in got_assocs)]
        if same_ends:
            return ('langgraph.associations:same-name-same-ends-merged',
                    'associations %s are missing from the language graph (another association with the same name and end types exists)' % (same_ends,))
        return ('langgraph.associations:wrong-set', 'associations %s expected %s' % (got_assocs, want_assocs))
    for t in lang.order:
        got = sorted(gsig(a) for a in by[t].associations)
        want = sorted(set(sig(lang.assocs[i]) for i in lang.assocs_of(t)))
        if got != want:
            return ('langgraph.asset.associations:wrong-list', '%s lists %s expected %s' % (t, got, want))
    for a in lg.associations:
        spec_a = next(x for x in lang.assocs if sig(x) == gsig(a))
        for side, fld in (('left', a.left_field), ('right', a.right_field)):
            m = spec_a[side + 'Multiplicity']
            if fld.minimum != m['min'] or fld.maximum != m['max']:
                return ('langgraph.associations:multiplicity', '%s %s multiplicity %r..%r expected %r' % (a.name, side, fld.minimum, fld.maximum, m))
    # lookups by fields and assets, both orientations, all (sub)type pairs
    for i, a in enumerate(lang.assocs):
        for lt in lang.descendants(a['leftAsset']):
            for rt in lang.descendants(a['rightAsset']):
                for flipped in (False, True):
                    args = (a['leftField'], a['rightField'], lt, rt) if not flipped else (a['rightField'], a['leftField'], rt, lt)
                    got = lg.get_association_by_fields_and_assets(*args)
                    if count:
                        res.count('assoc-lookups-positive')
                        if flipped:
                            res.count('assoc-lookups-flipped')
                        if lt != a['leftAsset'] or rt != a['rightAsset']:
                            res.count('assoc-lookups-subtype')
                    if got is None or gsig(got) != sig(a):
                        return ('langgraph.lookup:by-fields-and-assets%s' % ('-flipped' if flipped else ''),
                                'lookup%r returned %s expected %s' % (args, gsig(got) if got else None, sig(a)))
        # negative lookups: wrong type on one side, wrong field
        for t in lang.order:
            if not lang.is_sub(t, a['leftAsset']):
                # the same fields may legitimately match the flipped orientation of a reflexive association
                ok_flipped = lang.is_sub(t, a['rightAsset']) and lang.is_sub(a['rightAsset'], a['leftAsset']) and False
                got = lg.get_association_by_fields_and_assets(a['leftField'], a['rightField'], t, a['rightAsset'])
                if count:
                    res.count('assoc-lookups-negative')
                if got is not None:
                    return ('langgraph.lookup:false-positive', 'lookup(%s,%s,%s,%s) returned %s' % (a['leftField'], a['rightField'], t, a['rightAsset'], gsig(got)))
        got = lg.get_association_by_fields_and_assets(a['leftField'], 'nosuchfield', a['leftAsset'], a['rightAsset'])
        if count:
            res.count('assoc-lookups-negative')
        if got is not None:
            return ('langgraph.lookup:false-positive', 'lookup with unknown field returned %s' % (gsig(got),))
    # attack steps: converse child/parent links by identity
    for s in lg.attack_steps:
        for cname, lst in s.children.items():
            for (target, chain) in lst:
                if count:
                    res.count('converse-links')
                if target.name != cname:
                    return ('langgraph.steps:children-key', 'children[%r] holds step %s' % (cname, target.name))
                back = target.parents.get(s.name, [])
                if not any(p is s for (p, _c) in back):
                    return ('langgraph.steps:converse-parent-missing', '%s:%s -> %s:%s has no converse parent link' % (s.asset.name, s.name, target.asset.name, target.name))
        for pname, lst in s.parents.items():
            for (src, chain) in lst:
                fwd = src.children.get(s.name, [])
                if not any(c is s for (c, _c) in fwd):
                    return ('langgraph.steps:converse-child-missing', '%s:%s <- %s:%s has no converse child link' % (s.asset.name, s.name, src.asset.name, src.name))
    # every reaches expression gives a link to the statically typed target
    for t in lang.order:
        steps = lang.steps(t)
        gsteps = {s.name: s for s in by[t].attack_steps}
        if sorted(gsteps) != sorted(steps):
            return ('langgraph.asset.attack_steps:wrong-set', '%s exposes %s expected %s' % (t, sorted(gsteps), sorted(steps)))
        for n, st in steps.items():
            for e in (st['reaches'] or {}).get('stepExpressions', []):
                from ..ref_sem import final_step
                tt = lang.type_of(t, e if e['type'] != 'collect' else e['lhs']) if e['type'] != 'attackStep' else t
                tn = final_step(e)
                targets = gsteps[n].children.get(tn, [])
                if not any(lang.is_sub(tt, tg.asset.name) or lang.is_sub(tg.asset.name, tt) for (tg, _c) in targets):
                    return ('langgraph.steps:link-missing', '%s:%s has no link to %s:%s' % (t, n, tt, tn))
    return None


def gen_illformed(rng, spec):
    """one ill-formed variant of a well-formed spec: (kind, spec) or None"""
    s = copy.deepcopy(spec)
    kinds = ['unknown-super', 'unknown-assoc-end', 'unknown-field', 'unknown-step', 'removed-asset',
             'unknown-field-in-variable', 'unknown-subtype-in-variable', 'unknown-variable', 'unknown-subtype']
    rng.shuffle(kinds)
    parents = {a['name']: a['superAsset'] for a in s['assets']}
    by_name = {a['name']: a for a in s['assets']}

    def var_refs(e, out):
        if isinstance(e, dict):
            if e.get('type') == 'variable':
                out.append(e)
            for v in e.values():
                var_refs(v, out)
        elif isinstance(e, list):
            for v in e:
                var_refs(v, out)

    def subtypes(e, out):
        if isinstance(e, dict):
            if e.get('type') == 'subType':
                out.append(e)
            for v in e.values():
                subtypes(v, out)
        elif isinstance(e, list):
            for v in e:
                subtypes(v, out)

    for kind in kinds:
        if kind in ('unknown-field-in-variable', 'unknown-subtype-in-variable', 'unknown-variable'):
            # a variable that a step of asset type T (directly) uses: its definition visible from T is damaged
            uses = []
            for a in s['assets']:
                for st in a['attackSteps']:
                    refs = []
                    var_refs((st['reaches'] or {}).get('stepExpressions', []), refs)
                    for r in refs:
                        if (st['reaches'] or {}).get('stepExpressions') and any(r is x or (x.get('type') == 'collect' and x.get('lhs') is r)
                                                                                     for x in st['reaches']['stepExpressions']):
                            uses.append((a['name'], r))
            rng.shuffle(uses)
            for t, r in uses:
                if kind == 'unknown-variable':
                    r['name'] = 'noSuchVariable'
                    return kind, s
                x = t
                d = None
                while x and d is None:
                    d = next((v for v in by_name[x]['variables'] if v['name'] == r['name']), None)
                    x = parents.get(x)
                if d is None:
                    continue
                if kind == 'unknown-field-in-variable' and _first_field(d['stepExpression']) is not None:
                    _first_field(d['stepExpression'])['name'] = 'noSuchField'
                    return kind, s
                if kind == 'unknown-subtype-in-variable':
                    subs = []
                    subtypes(d['stepExpression'], subs)
                    if subs:
                        subs[0]['subType'] = 'NoSuchAsset'
                        return kind, s
            continue
        if kind == 'unknown-subtype':
            subs = []
            for a in s['assets']:
                for st in a['attackSteps']:
                    subtypes((st['reaches'] or {}).get('stepExpressions', []), subs)
            if subs:
                rng.choice(subs)['subType'] = 'NoSuchAsset'
                return kind, s
            continue
        if kind == 'removed-asset':
            # an asset that others extend or that an association ends in disappears from the specification
            used = [a['superAsset'] for a in s['assets'] if a['superAsset']] + [x[k] for x in s['associations'] for k in ('leftAsset', 'rightAsset')]
            if used:
                gone = rng.choice(sorted(set(used)))
                s['assets'] = [a for a in s['assets'] if a['name'] != gone]
                return kind, s
            continue
        if kind == 'unknown-super':
            a = rng.choice(s['assets'])
            a['superAsset'] = 'NoSuchAsset'
            return kind, s
        if kind == 'unknown-assoc-end' and s['associations']:
            a = rng.choice(s['associations'])
            a[rng.choice(['leftAsset', 'rightAsset'])] = 'NoSuchAsset'
            return kind, s
        exprs = []
        for a in s['assets']:
            for st in a['attackSteps']:
                if st['reaches']:
                    for i, e in enumerate(st['reaches']['stepExpressions']):
                        exprs.append((st['reaches']['stepExpressions'], i))
        if kind == 'unknown-step' and exprs:
            lst, i = rng.choice(exprs)
            e = lst[i]
            while e['type'] == 'collect':
                e = e['rhs']
            if e['type'] == 'attackStep':
                e['name'] = 'noSuchStep'
                return kind, s
        if kind == 'unknown-field' and exprs:
            cands = [(l, i) for (l, i) in exprs if _first_field(l[i]) is not None]
            if cands:
                lst, i = rng.choice(cands)
                _first_field(lst[i])['name'] = 'noSuchField'
                return kind, s
    return None


def _first_field(e):
    k = e['type']
    if k == 'field':
        return e
    if k in ('collect', 'union', 'intersection', 'difference'):
        return _first_field(e['lhs'])
    if k in ('subType', 'transitive'):
        return _first_field(e['stepExpression'])
    return None


def check_overapprox(built, graph, res, count=True):
    lang, am = built.lang, built.am
    rev = {id(o): aid for aid, o in built.objs.items()}
    lsteps = {(s.asset.name, s.name): s for s in built.lang_graph.attack_steps}
    for n in graph.nodes:
        x = am.asset(rev[id(n.asset)])
        ls = lsteps.get((x['type'], n.name))
        if ls is None:
            return ('langgraph.steps:missing-step-node', 'no language-graph step for %s:%s' % (x['type'], n.name))
        for c in n.children:
            y = am.asset(rev[id(c.asset)])
            if count:
                res.count('ag-edges-checked')
            targets = ls.children.get(c.name, [])
            if not any(lang.is_sub(y['type'], tg.asset.name) for (tg, _c) in targets):
                return ('langgraph.overapprox:edge-not-predicted',
                        'attack-graph edge %s:%s -> %s:%s (asset types %s -> %s) has no language-graph link to a step %s owned by %s or an ancestor; links go to %s' % (
                            x['name'], n.name, y['name'], c.name, x['type'], y['type'], c.name, y['type'],
                            [tg.asset.name for (tg, _c) in targets]))
    return None


def _check_case(case, res, count=True):
    from maltoolbox.language import LanguageGraph
    lang = Lang(case['spec'])
    try:
        lg = LanguageGraph(copy.deepcopy(case['spec']))
    except Exception as exc:
        return ('build:raised-%s' % type(exc).__name__, 'LanguageGraph() raised %r on a well-formed language' % (exc,))
    first = check_structure(lang, lg, res, count)
    if first:
        return first
    for kind, bad in case.get('illformed', []):
        if count:
            res.count('illformed:' + kind)
        try:
            LanguageGraph(copy.deepcopy(bad))
        except Exception:
            if count:
                res.count('illformed-raised')
            continue
        return ('langgraph.illformed:%s-accepted' % kind, 'ill-formed language (%s) was accepted without any error' % kind)
    lg2 = None
    for kind, bad in sorted(case.get('illformed', []), key=lambda kb: kb[0] != 'removed-asset'):
        # the same through regenerate_graph(): the graph was built from the well-formed specification, the dict it
        # holds is then edited into the ill-formed variant; afterwards the specification is repaired and the SAME
        # graph object regenerated: the well-formed language must be accepted again and mirrored correctly
        if lg2 is None:
            given = copy.deepcopy(case['spec'])
            try:
                lg2 = LanguageGraph(given)
            except Exception:
                break
        given.clear()
        given.update(copy.deepcopy(bad))
        if count:
            res.count('illformed-through-regenerate')
        try:
            lg2.regenerate_graph()
        except Exception:
            pass
        else:
            return ('langgraph.illformed:%s-accepted-by-regenerate' % kind,
                    'after the held specification was edited into an ill-formed one (%s) regenerate_graph() reported no error' % kind)
        given.clear()
        given.update(copy.deepcopy(case['spec']))
        if count:
            res.count('repaired-and-regenerated')
        try:
            lg2.regenerate_graph()
        except Exception as exc:
            return ('langgraph.repaired:rejected-after-an-earlier-error',
                    'the specification was ill-formed (%s, correctly reported), then repaired: regenerate_graph() on the same object raised %r' % (kind, exc))
        first = check_structure(lang, lg2, res, count=False)
        if first:
            return ('langgraph.repaired:' + first[0], 'after an ill-formed specification (%s) was repaired and regenerated: %s' % (kind, first[1]))
    if case.get('amodel') is not None and not lang.same_signature_groups():
        try:
            built = Built(case, attackers=False)
            graph = built.attack_graph()
        except TooExpensive:
            res.count('skipped:too-expensive')
            return None
        except Exception as exc:
            return ('build:raised-%s' % type(exc).__name__, 'building model / attack graph raised %r' % (exc,))
        first = check_overapprox(built, graph, res, count)
        if first:
            return first
    return None


check_case = safe(_check_case)


def run(rng, res, tier, shard, nshards):
    from maltoolbox.language import LanguageGraph
    from maltoolbox.language.languagegraph import LanguageGraphAsset
    reach = Reach()
    reach.add('LanguageGraph._generate_graph', LanguageGraph._generate_graph)
    reach.add('LanguageGraph.process_step_expression', LanguageGraph.process_step_expression)
    reach.add('LanguageGraph.reverse_dep_chain', LanguageGraph.reverse_dep_chain)
    reach.add('LanguageGraphAsset.is_subasset_of', LanguageGraphAsset.is_subasset_of)
    reach.add('LanguageGraph.get_association_by_fields_and_assets', LanguageGraph.get_association_by_fields_and_assets)
    reach.start()
    budget = Budget(CASES[tier] // nshards + 1, SECONDS[tier])
    while budget.more():
        r = rng.random()
        lcfg = Cfg(inherit_bias=0.75, transitive_nonfield=0.3) if r < 0.5 else Cfg(max_assets=8, max_assocs=8)
        if rng.random() < 0.15:
            lcfg.same_sig_dups = 0.6       # same name AND same end types, different fields (F26)
            lcfg.dup_assoc_names = 0.5
        if rng.random() < 0.1:
            lcfg.same_field_both_ends = 0.4     # X [f] <-- A --> [f] Y: language graph only (no model can be built: C06 known finding)
        case = gen_case(rng, lcfg, MCfg(), corelang_share=0.03)
        if any(a['leftField'] == a['rightField'] for a in case['spec']['associations']):
            case['amodel'] = None
            res.count('class:same-field-name-at-both-ends')
        bad = []
        if case['source'] == 'generated':
            for _ in range(rng.choice([2, 2, 5])):
                v = gen_illformed(rng, case['spec'])
                if v:
                    bad.append(list(v))
        case['illformed'] = bad
        first = check_case(case, res)
        lang = Lang(case['spec'])
        nt = bool(lang.assocs) and any(lang.parent[t] for t in lang.order)
        res.case(digest([case['spec'], case['amodel']]) if nt else None)
        if res.evaluations <= 2:
            res.sample({'inheritance': {t: lang.parent[t] for t in lang.order},
                        'associations': [sig(a) for a in lang.assocs],
                        'illformed_kinds': [b[0] for b in bad]})
        if first:
            key, what = first

            def still(c, key=key):
                from ..result import Result
                f2 = check_case(c, Result('C15', 's', 0, 0), count=False)
                return f2 is not None and f2[0] == key
            small = case
            if (key.startswith('langgraph.overapprox') or key.startswith('build')) and key not in res.viol_counts and len(res.viol_counts) < 4:
                small, _ = shrink_case(case, still, max_runs=60)
            res.violation(key, what, {'minimised': small, 'original': case})
    if budget.timed_out():
        res.notes['time-cap-hit'] = True
    reach.stop()
    res.reach = dict(reach.counts)


def replay(case, res):
    for c in (case.get('minimised'), case.get('original', case)):
        if c is None:
            continue
        first = check_case(c, res)
        res.case(None)
        if first:
            res.violation(first[0], first[1], case)
            return

"""Lock-step shadow of maltoolbox.model.Model (DESIGN 3, C05).

A history is a list of JSON operation descriptors.  `Lockstep` applies each
operation to the real Model and to the abstract shadow and compares every
observable after every step.  Choices the property leaves open (which fresh
id, which replacement name) are adopted from the implementation after the
constraints on them have been checked (S5).
"""
from __future__ import annotations

import copy
import json

from .ref_sem import Lang


class SAsset:
    def __init__(self, key, typ):
        self.key, self.type = key, typ
        self.id = None
        self.name = None
        self.defenses = {}
        self.extras = {}


class SAssoc:
    def __init__(self, key, ai, cls, left, right):
        self.key, self.ai, self.cls = key, ai, cls
        self.left, self.right = list(left), list(right)   # asset keys
        self.extras = {}


class SAttacker:
    def __init__(self, key):
        self.key = key
        self.id = None
        self.name = None
        self.eps = []     # [(asset key, [steps])]


class Shadow:
    def __init__(self, lang: Lang):
        self.lang = lang
        self.assets = []      # live, in model order
        self.assocs = []
        self.attackers = []
        self.dead_assets, self.dead_assocs, self.dead_attackers = [], [], []

    def asset(self, key):
        return next((a for a in self.assets if a.key == key), None)

    def live_ids(self):
        return {a.id for a in self.assets}

    def live_names(self):
        return {a.name for a in self.assets}

    def neighbours(self, key, f):
        out = []
        for s in self.assocs:
            a = self.lang.assocs[s.ai]
            if a['leftField'] == f and key in s.right:
                out.extend(k for k in s.left if k not in out)
            if a['rightField'] == f and key in s.left:
                out.extend(k for k in s.right if k not in out)
        return out

    def linked(self, cls, l, r):
        return any(s.cls == cls and l in s.left and r in s.right for s in self.assocs)

    def remove_from_assoc(self, key, s):
        """returns True when the whole instance disappears"""
        for side in (s.left, s.right):
            if key in side:
                if len(side) == 1:
                    self.assocs.remove(s)
                    self.dead_assocs.append(s)
                    return True
                side.remove(key)
        return False

    def to_dict(self):
        out = {'assets': {}, 'associations': [], 'attackers': {}}
        for a in self.assets:
            d = {'name': a.name, 'type': a.type}
            dflt = self.lang.defenses(a.type)
            nd = {k: float(v) for k, v in a.defenses.items() if float(v) != dflt[k]}
            if nd:
                d['defenses'] = nd
            if a.extras:
                d['extras'] = a.extras
            out['assets'][a.id] = d
        ids = {a.key: a.id for a in self.assets + self.dead_assets}
        for s in self.assocs:
            la = self.lang.assocs[s.ai]
            e = {s.cls: {la['leftField']: [ids[k] for k in s.left],
                         la['rightField']: [ids[k] for k in s.right]}}
            if s.extras:
                e['extras'] = s.extras
            out['associations'].append(e)
        for t in self.attackers:
            out['attackers'][t.id] = {'name': t.name,
                                      'entry_points': {ids[k]: {'attack_steps': list(st)} for k, st in t.eps}}
        return out


def norm_assocs(lst):
    """multiset of (class, {field: sorted ids}) as a sorted list of JSON strings"""
    out = []
    for d in lst:
        extras = d.get('extras') or {}
        if hasattr(extras, 'as_dict'):
            extras = extras.as_dict()
        d = {k: v for k, v in d.items() if k != 'extras'}
        (cls, fields), = d.items()
        out.append(json.dumps([cls, {f: sorted(int(i) for i in (ids if isinstance(ids, list) else [ids])) for f, ids in fields.items()}, extras],
                              sort_keys=True, default=str))
    return sorted(out)


class Divergence(Exception):
    def __init__(self, key, what):
        Exception.__init__(self, key + ': ' + what)
        self.key, self.what = key, what


class Lockstep:
    """applies histories to the real Model and the shadow"""

    def __init__(self, spec, factory=None, lang_graph=None, counters=None):
        from maltoolbox.language import LanguageGraph, LanguageClassesFactory
        from maltoolbox.model import Model, AttackerAttachment
        self.lang = Lang(spec)
        self.lang_graph = lang_graph or LanguageGraph(copy.deepcopy(spec))
        self.factory = factory or LanguageClassesFactory(self.lang_graph)
        self.Model, self.AttackerAttachment = Model, AttackerAttachment
        self.model = Model('lockstep', self.factory)
        self.sh = Shadow(self.lang)
        self.real = {}      # key -> real object
        self.nkey = 0
        self.counters = counters if counters is not None else {}
        self.fields = sorted({a['leftField'] for a in self.lang.assocs} | {a['rightField'] for a in self.lang.assocs})
        self.seen_ids, self.seen_names = set(), set()
        self.step_no = 0
        self.check_every_step = True

    def count(self, name, n=1):
        self.counters[name] = self.counters.get(name, 0) + n

    def key(self):
        self.nkey += 1
        return self.nkey

    # ---- reference resolution -------------------------------------------------
    def _pick(self, ref, live, dead):
        kind, i = ref
        pool = live if kind == 'live' else dead
        if not pool:
            return None
        return pool[i % len(pool)]

    # ---- observable snapshot (for "a raising operation changes nothing") -------------
    def snapshot(self):
        m = self.model
        d = m._to_dict()
        d.pop('metadata', None)
        snap = {'dict': json.dumps(d, sort_keys=True, default=str)}
        snap['assocs_of'] = {int(a.id): sorted(id(x) for x in a.associations) for a in m.assets}
        snap['order'] = [id(a) for a in m.assets]
        snap['aorder'] = [id(a) for a in m.associations]
        snap['eps'] = [[(id(a), list(s)) for a, s in t.entry_points] for t in m.attackers]
        return snap

    # ---- one operation ---------------------------------------------------------------
    def apply(self, op):
        """apply one op to both; raises Divergence"""
        self.step_no += 1
        kind = op[0]
        m, sh = self.model, self.sh
        handler = getattr(self, 'op_' + kind)
        handler(*op[1:])
        if self.check_every_step:
            self.compare('step %d %s' % (self.step_no, json.dumps(op)))

    def _expect_raise(self, label, fn, must=True):
        """run an operation the shadow considers invalid: it may raise (then
        nothing may change) or be accepted if every invariant still holds (S6);
        returns True when it raised"""
        before = self.snapshot()
        try:
            fn()
        except Exception as exc:
            self.count('op:%s:raised' % label)
            after = self.snapshot()
            if after != before and getattr(self, 'strict_raise', True):
                diff = [k for k in before if before[k] != after[k]]
                raise Divergence('model.%s:state-changed-by-raising-operation' % label,
                                 'operation raised %r but the observable state changed (%s)' % (exc, diff))
            return True
        self.count('op:%s:invalid-accepted' % label)
        return False

    def op_re_add_asset(self, ref):
        """an asset that is in the model is passed to add_asset again under its own id: the id is in use,
        the call is refused (or, if accepted, the model must still be consistent) and nothing may change"""
        sh, m = self.sh, self.model
        a = self._pick(ref, sh.assets, sh.dead_assets)
        if a is None or ref[0] != 'live':
            return
        obj = self.real[a.key]
        self._expect_raise('add_asset-already-in-model', lambda: m.add_asset(obj, asset_id=int(obj.id)))
        if any(s2 for s2 in sh.assocs if a.key in s2.left or a.key in s2.right):
            self.count('class:refused-add-of-a-linked-asset')

    def op_add_asset_wrong_id_type(self, typ, form):
        """add_asset with an explicit id of a wrong type that still hashes and adds like the integer (5.0, True, '5'):
        the schema refuses it; nothing may stay behind - the same id as an int is free for the next, valid, add"""
        sh, m = self.sh, self.model
        cls = getattr(self.factory.ns, typ)
        k = 1 if form == 'bool' else max(list(sh.live_ids()) + [0]) + 2
        if k in sh.live_ids():
            return
        bad = {'float': float(k), 'bool': True, 'str': str(k)}[form]
        obj = cls(name='x-wrong-id-%d' % self.step_no)
        raised = self._expect_raise('add_asset-wrong-id-type', lambda: m.add_asset(obj, asset_id=bad))
        if not raised:
            key = self.key()
            a = SAsset(key, typ)
            a.id, a.name = int(obj.id), str(obj.name)
            sh.assets.append(a)
            self.real[key] = obj
            return
        self.count('class:refused-add-with-wrong-typed-id:' + form)
        self.op_add_asset(typ, 'after-wrong-id-%d' % self.step_no, k, True)

    def op_add_ep_empty(self, tref, aref):
        """an entry point without steps, put there directly (the attachment's list is a public field;
        AttackerAttachment(entry_points=[(asset, [])]) and a file with attack_steps: [] give the same)"""
        sh = self.sh
        t = self._pick(tref, sh.attackers, sh.dead_attackers)
        a = self._pick(aref, sh.assets, sh.dead_assets)
        if t is None or a is None or tref[0] != 'live' or aref[0] != 'live':
            return
        if any(k == a.key for k, _st in t.eps):
            return
        self.real[t.key].entry_points.append((self.real[a.key], []))
        t.eps.append((a.key, []))
        self.count('op:entry-point-without-steps')

    def op_add_asset(self, typ, name, aid, allow_dup, id_form='int'):
        sh, m = self.sh, self.model
        cls = getattr(self.factory.ns, typ)
        obj = cls(name=name) if name is not None else cls()
        if getattr(self, '_preset_obj', None) is not None:
            obj, self._preset_obj = self._preset_obj, None
        id_taken = aid is not None and aid in sh.live_ids()
        name_taken = name is not None and name in sh.live_names()
        if name is None and not allow_dup and not id_taken:
            # an unnamed asset is called '<type>:<id>'; if a live asset already has
            # that name the add is a duplicate-name case as well.  With an automatic
            # id the implementation chooses the id, so any '<type>:<k>' with k not a
            # live id may be the colliding default name.
            if aid is not None:
                name_taken = ('%s:%d' % (typ, aid)) in sh.live_names()
            else:
                for nm in sh.live_names():
                    head, _, tail = nm.rpartition(':')
                    if head == typ and tail.lstrip('-').isdigit() and int(tail) not in sh.live_ids():
                        name_taken = 'maybe'
        kwargs = {}
        if aid is not None:
            kwargs['asset_id'] = aid
            if id_form == 'pjs':
                # the id as another asset's .id attribute reads (model.add_asset(new, asset_id=old.id)):
                # an integer-valued schema object, not an int
                tmp = cls()
                tmp.id = aid
                kwargs['asset_id'] = tmp.id
                self.count('class:explicit-id-given-as-schema-integer')
        if not allow_dup:
            kwargs['allow_duplicate_names'] = False
        if id_taken or (name_taken and not allow_dup):
            label = 'add_asset-dup-id' if id_taken else 'add_asset-dup-name'
            raised = self._expect_raise(label, lambda: m.add_asset(obj, **kwargs))
            if not raised:
                # accepted: the invariants (unique ids / names) decide in compare()
                k = self.key()
                a = SAsset(k, typ)
                a.id, a.name = int(obj.id), str(obj.name)
                sh.assets.append(a)
                self.real[k] = obj
            return
        try:
            m.add_asset(obj, **kwargs)
        except Exception as exc:
            raise Divergence('model.add_asset:valid-add-refused',
                             'add_asset(type=%s, name=%r, id=%r, allow_dup=%s) raised %r although id and name are free '
                             '(live ids %s, live names %s)' % (typ, name, aid, allow_dup, exc, sorted(sh.live_ids()), sorted(sh.live_names())))
        self.count('op:add_asset:ok')
        k = self.key()
        a = SAsset(k, typ)
        try:
            a.id, a.name = int(obj.id), str(obj.name)
        except Exception as exc:
            raise Divergence('model.add_asset:no-id-or-name', 'asset has no usable id/name after add_asset: %r' % (exc,))
        if aid is not None:
            if aid == 0:
                self.count('class:explicit-id-0')
            if aid < 0:
                self.count('class:explicit-id-negative')
            if a.id != aid:
                raise Divergence('ids:explicit-%s-ignored' % ('zero' if aid == 0 else 'id'),
                                 'add_asset(asset_id=%r) gave the asset id %r' % (aid, a.id))
        elif a.id in sh.live_ids():
            raise Divergence('model.add_asset:automatic-id-in-use', 'automatic id %r is used by a live asset' % a.id)
        if a.id in self.seen_ids:
            self.count('class:id-reuse')
        if name is not None:
            if not name_taken and a.name != name:
                raise Divergence('model.add_asset:unused-name-changed',
                                 'requested name %r is not used by a live asset but became %r' % (name, a.name))
            if name_taken:
                self.count('class:rename')
                if a.name in sh.live_names():
                    raise Divergence('model.add_asset:renamed-name-collides',
                                     'duplicate name %r was renamed to %r which a live asset already has' % (name, a.name))
            if name in self.seen_names and not name_taken:
                self.count('class:name-reuse')
        else:
            if a.name in sh.live_names():
                raise Divergence('model.add_asset:default-name-collides',
                                 'asset added without a name was called %r which a live asset already has' % a.name)
        sh.assets.append(a)
        self.real[k] = obj
        self.seen_ids.add(a.id)
        self.seen_names.add(a.name)

    def op_set_defense(self, ref, di, value):
        a = self._pick(ref, self.sh.assets, self.sh.dead_assets)
        if a is None or ref[0] != 'live':
            return
        defs = sorted(self.lang.defenses(a.type))
        if not defs:
            return
        defense = defs[di % len(defs)]
        setattr(self.real[a.key], defense, value)
        a.defenses[defense] = value
        self.count('op:set_defense')

    def op_set_extras(self, ref, extras):
        a = self._pick(ref, self.sh.assets, self.sh.dead_assets)
        if a is None or ref[0] != 'live':
            return
        self.real[a.key].extras = copy.deepcopy(extras)
        a.extras = copy.deepcopy(extras)
        self.count('op:set_extras')

    def op_set_assoc_extras(self, ref, extras):
        s = self._pick(ref, self.sh.assocs, self.sh.dead_assocs)
        if s is None or ref[0] != 'live':
            return
        self.real[s.key].extras = copy.deepcopy(extras)
        s.extras = copy.deepcopy(extras)
        self.count('op:set_assoc_extras')

    def op_remove_asset(self, ref):
        sh, m = self.sh, self.model
        a = self._pick(ref, sh.assets, sh.dead_assets)
        if a is None:
            return
        obj = self.real[a.key]
        if ref[0] == 'dead':
            self._expect_raise('remove_asset-not-in-model', lambda: m.remove_asset(obj))
            return
        try:
            m.remove_asset(obj)
        except Exception as exc:
            raise Divergence('model.remove_asset:raised',
                             'remove_asset of a live asset (id %s, in %d associations%s) raised %r' % (
                                 a.id, sum(1 for s in sh.assocs if a.key in s.left or a.key in s.right),
                                 ', self-linked' if any(a.key in s.left and a.key in s.right for s in sh.assocs) else '', exc))
        self.count('op:remove_asset:ok')
        for s in list(sh.assocs):
            if a.key in s.left or a.key in s.right:
                sh.remove_from_assoc(a.key, s)
        for t in sh.attackers:
            t.eps = [(k, st) for k, st in t.eps if k != a.key]
        sh.assets.remove(a)
        sh.dead_assets.append(a)

    def _valid_link(self, ai, left, right):
        """is the association instance legal for the language and not a duplicate"""
        la = self.lang.assocs[ai]
        sh = self.sh
        cls = self.lang.assoc_class_name(ai)
        for k in left:
            if not self.lang.is_sub(sh.asset(k).type, la['leftAsset']):
                return 'type'
        for k in right:
            if not self.lang.is_sub(sh.asset(k).type, la['rightAsset']):
                return 'type'
        if la['leftMultiplicity']['max'] is not None and len(left) > la['leftMultiplicity']['max']:
            return 'max'
        if la['rightMultiplicity']['max'] is not None and len(right) > la['rightMultiplicity']['max']:
            return 'max'
        if len(set(left)) != len(left) or len(set(right)) != len(right):
            return 'dup-in-field'
        if not left and not right:
            return 'empty'
        if not left or not right:
            # one side without members: the API accepts it (nothing is linked to anything by such an instance)
            self.count('class:association-with-an-empty-side')
        for l in left:
            for r in right:
                if sh.linked(cls, l, r):
                    return 'dup-link'
        return None

    def op_add_assoc(self, ai, lrefs, rrefs):
        sh, m = self.sh, self.model
        if not self.lang.assocs:
            return
        ai = ai % len(self.lang.assocs)
        la = self.lang.assocs[ai]
        left = [self._pick(r, sh.assets, sh.dead_assets) for r in lrefs]
        right = [self._pick(r, sh.assets, sh.dead_assets) for r in rrefs]
        if None in left or None in right or any(x not in sh.assets for x in left + right):
            return
        lk, rk = [a.key for a in left], [a.key for a in right]
        why = self._valid_link(ai, lk, rk)
        if why in ('type', 'max', 'empty'):
            return      # C06's business
        cls = self.lang.assoc_class_name(ai)
        try:
            assoc = getattr(self.factory.ns, cls)()
            setattr(assoc, la['leftField'], [self.real[k] for k in lk])
            setattr(assoc, la['rightField'], [self.real[k] for k in rk])
        except Exception as exc:
            raise Divergence('model.add_association:valid-construction-refused',
                             'constructing %s(%s=%s, %s=%s) raised %r' % (cls, la['leftField'], lk, la['rightField'], rk, exc))
        if why is not None:
            if len(lk) * len(rk) > 32 and why == 'dup-link':
                self.count('class:duplicate-attempt-with-more-than-32-pairs')
            raised = self._expect_raise('add_association-' + why, lambda: m.add_association(assoc))
            if not raised:
                raise Divergence('model.add_association:%s-accepted' % why,
                                 'add_association accepted an instance of %s that is invalid (%s)' % (cls, why))
            return
        try:
            m.add_association(assoc)
        except Exception as exc:
            raise Divergence('model.add_association:valid-link-refused',
                             'add_association(%s %s=%s %s=%s) raised %r; existing instances of the class: %s' % (
                                 cls, la['leftField'], [sh.asset(k).id for k in lk], la['rightField'],
                                 [sh.asset(k).id for k in rk], exc,
                                 [([sh.asset(k).id for k in s.left], [sh.asset(k).id for k in s.right]) for s in sh.assocs if s.cls == cls]))
        self.count('op:add_association:ok')
        if len(lk) * len(rk) > 32:
            self.count('class:link-with-more-than-32-pairs')
        if set(lk) & set(rk):
            self.count('class:self-link')
        if len(lk) > 1 or len(rk) > 1:
            self.count('class:multi-member-field')
        k = self.key()
        sh.assocs.append(SAssoc(k, ai, cls, lk, rk))
        self.real[k] = assoc

    def op_remove_assoc(self, ref):
        sh, m = self.sh, self.model
        s = self._pick(ref, sh.assocs, sh.dead_assocs)
        if s is None:
            return
        obj = self.real[s.key]
        if ref[0] == 'dead':
            # an equal association (same class, same members) may be live again
            if any(x.cls == s.cls and x.left == s.left and x.right == s.right for x in sh.assocs):
                return
            self._expect_raise('remove_association-not-in-model', lambda: m.remove_association(obj))
            return
        try:
            m.remove_association(obj)
        except Exception as exc:
            raise Divergence('model.remove_association:raised', 'remove_association of a live association raised %r' % (exc,))
        self.count('op:remove_association:ok')
        sh.assocs.remove(s)
        sh.dead_assocs.append(s)

    def op_remove_from_assoc(self, aref, sref):
        sh, m = self.sh, self.model
        a = self._pick(aref, sh.assets, sh.dead_assets)
        s = self._pick(sref, sh.assocs, sh.dead_assocs)
        if a is None or s is None:
            return
        aobj, sobj = self.real[a.key], self.real[s.key]
        valid = aref[0] == 'live' and sref[0] == 'live' and (a.key in s.left or a.key in s.right)
        if not valid:
            if sref[0] == 'dead' and any(x.cls == s.cls and x.left == s.left and x.right == s.right for x in sh.assocs):
                return
            self._expect_raise('remove_asset_from_association-invalid', lambda: m.remove_asset_from_association(aobj, sobj))
            return
        try:
            m.remove_asset_from_association(aobj, sobj)
        except Exception as exc:
            raise Divergence('model.remove_asset_from_association:raised',
                             'remove_asset_from_association(asset %s, %s left=%s right=%s) raised %r' % (
                                 a.id, s.cls, s.left, s.right, exc))
        self.count('op:remove_asset_from_association:ok')
        if a.key in s.left and a.key in s.right:
            self.count('class:remove-self-linked-from-association')
        sh.remove_from_assoc(a.key, s)

    def op_add_attacker(self, name, tid):
        sh, m = self.sh, self.model
        if tid is not None and (tid in {t.id for t in sh.attackers} or tid in sh.live_ids()):
            return      # attacker id clashes are outside the property
        att = self.AttackerAttachment()
        att.entry_points = []
        if name is not None:
            att.name = name
        try:
            if tid is not None:
                m.add_attacker(att, attacker_id=tid)
            else:
                m.add_attacker(att)
        except Exception as exc:
            raise Divergence('model.add_attacker:raised', 'add_attacker raised %r' % (exc,))
        self.count('op:add_attacker:ok')
        k = self.key()
        t = SAttacker(k)
        t.id, t.name = att.id, att.name
        if tid is not None and t.id != tid:
            raise Divergence('ids:explicit-%s-ignored' % ('zero' if tid == 0 else 'id'),
                             'add_attacker(attacker_id=%r) gave id %r' % (tid, t.id))
        if name is not None and t.name != name:
            raise Divergence('model.add_attacker:name-changed', 'attacker name %r became %r' % (name, t.name))
        sh.attackers.append(t)
        self.real[k] = att

    def op_add_prepared_attacker(self, typ1, typ2, si1, si2):
        """an attacker whose entry points were set up on two asset objects BEFORE those were added to the model
        (neither has an id yet); assets and attacker are then added.  The two entry points must stay two."""
        sh, m = self.sh, self.model
        names = ['prepared %d a' % self.step_no, 'prepared %d b' % self.step_no]
        if set(names) & sh.live_names():
            return
        objs = [getattr(self.factory.ns, t)(name=nm) for t, nm in zip((typ1, typ2), names)]
        steps = [list(self.lang.steps(t)) for t in (typ1, typ2)]
        if not steps[0] or not steps[1]:
            return
        chosen = [steps[0][si1 % len(steps[0])], steps[1][si2 % len(steps[1])]]
        att = self.AttackerAttachment()
        att.entry_points = []
        att.add_entry_point(objs[0], chosen[0])
        att.add_entry_point(objs[1], chosen[1])
        keys = []
        for t, o in zip((typ1, typ2), objs):
            n0 = len(sh.assets)
            self._preset_obj = o
            self.op_add_asset(t, str(o.name), None, True)
            self._preset_obj = None
            if len(sh.assets) != n0 + 1:
                return
            keys.append(sh.assets[-1].key)
        try:
            m.add_attacker(att)
        except Exception as exc:
            raise Divergence('model.add_attacker:raised', 'add_attacker of a prepared attacker raised %r' % (exc,))
        k = self.key()
        t = SAttacker(k)
        t.id, t.name = att.id, att.name
        t.eps = [(keys[0], [chosen[0]]), (keys[1], [chosen[1]])]
        sh.attackers.append(t)
        self.real[k] = att
        self.count('class:attacker-prepared-before-its-assets-were-added')

    def op_remove_attacker(self, ref):
        sh, m = self.sh, self.model
        t = self._pick(ref, sh.attackers, sh.dead_attackers)
        if t is None:
            return
        obj = self.real[t.key]
        if ref[0] == 'dead':
            # dataclass equality: an equal live attacker would be removed instead
            if any(x.id == t.id and x.name == t.name for x in sh.attackers):
                return
            self._expect_raise('remove_attacker-not-in-model', lambda: m.remove_attacker(obj))
            return
        # list.remove uses dataclass ==; attackers equal by value are outside the envelope
        try:
            m.remove_attacker(obj)
        except Exception as exc:
            raise Divergence('model.remove_attacker:raised', 'remove_attacker of a live attacker raised %r' % (exc,))
        self.count('op:remove_attacker:ok')
        sh.attackers.remove(t)
        sh.dead_attackers.append(t)

    def op_add_ep(self, tref, aref, step_i):
        sh = self.sh
        t = self._pick(tref, sh.attackers, sh.dead_attackers)
        a = self._pick(aref, sh.assets, sh.dead_assets)
        if t is None or a is None or tref[0] != 'live' or aref[0] != 'live':
            return
        steps = list(self.lang.steps(a.type))
        if not steps:
            return
        step = steps[step_i % len(steps)]
        self.real[t.key].add_entry_point(self.real[a.key], step)
        self.count('op:add_entry_point')
        for k, st in t.eps:
            if k == a.key:
                if step not in st:
                    st.append(step)
                break
        else:
            t.eps.append((a.key, [step]))

    def op_remove_ep(self, tref, aref, step_i):
        sh = self.sh
        t = self._pick(tref, sh.attackers, sh.dead_attackers)
        a = self._pick(aref, sh.assets, sh.dead_assets)
        if t is None or a is None or tref[0] != 'live' or aref[0] != 'live':
            return
        steps = list(self.lang.steps(a.type))
        if not steps:
            return
        step = steps[step_i % len(steps)]
        self.real[t.key].remove_entry_point(self.real[a.key], step)
        self.count('op:remove_entry_point')
        for i, (k, st) in enumerate(t.eps):
            if k == a.key:
                if step in st:
                    st.remove(step)
                if not st:
                    del t.eps[i]
                break

    # ---- comparison of every observable ---------------------------------------------------
    def compare(self, where):
        sh, m = self.sh, self.model
        self.count('steps-compared')
        # primary lists
        if [id(x) for x in m.assets] != [id(self.real[a.key]) for a in sh.assets]:
            raise Divergence('model.assets:wrong-list', '%s: model.assets holds ids %s, expected %s' % (
                where, [int(x.id) for x in m.assets], [a.id for a in sh.assets]))
        ids = [a.id for a in sh.assets]
        names = [a.name for a in sh.assets]
        if len(set(ids)) != len(ids):
            raise Divergence('model.assets:duplicate-id', '%s: live asset ids %s' % (where, ids))
        if len(set(names)) != len(names):
            raise Divergence('model.assets:duplicate-name', '%s: live asset names %s' % (where, names))
        for a in sh.assets:
            obj = self.real[a.key]
            if int(obj.id) != a.id or str(obj.name) != a.name:
                raise Divergence('model.assets:id-or-name-changed', '%s: asset (%s,%r) now reads (%s,%r)' % (where, a.id, a.name, obj.id, obj.name))
        try:
            d = m._to_dict()
        except Exception as exc:
            raise Divergence('model.to_dict:raised', '%s: _to_dict() raised %r' % (where, exc))
        want = sh.to_dict()
        got_assets = {int(k): {kk: (vv if kk != 'defenses' else {x: float(y) for x, y in vv.items()}) for kk, vv in v.items()} for k, v in d['assets'].items()}
        if got_assets != want['assets']:
            raise Divergence('model.to_dict:assets-differ', '%s: assets %s expected %s' % (where, got_assets, want['assets']))
        if norm_assocs(d['associations']) != norm_assocs(want['associations']):
            raise Divergence('model.to_dict:associations-differ', '%s: associations %s expected %s' % (
                where, norm_assocs(d['associations']), norm_assocs(want['associations'])))
        got_att = {k: {'name': v['name'], 'entry_points': {int(a): e for a, e in v['entry_points'].items()}} for k, v in d['attackers'].items()}
        if got_att != want['attackers']:
            raise Divergence('model.to_dict:attackers-differ', '%s: attackers %s expected %s' % (where, got_att, want['attackers']))
        # lookups for live, removed and never-used keys
        probe_ids = set(ids) | {a.id for a in sh.dead_assets} | {-7, 10 ** 6}
        for i in probe_ids:
            got = m.get_asset_by_id(i)
            wanta = next((a for a in sh.assets if a.id == i), None)
            self.count('lookups-compared')
            if (got is None) != (wanta is None) or (got is not None and got is not self.real[wanta.key]):
                raise Divergence('model.lookup:by-id', '%s: get_asset_by_id(%r) returned %s' % (where, i, None if got is None else (got.id, got.name)))
        probe_names = set(names) | {a.name for a in sh.dead_assets} | {'no such name'}
        for n in probe_names:
            got = m.get_asset_by_name(n)
            wanta = next((a for a in sh.assets if a.name == n), None)
            self.count('lookups-compared')
            if (got is None) != (wanta is None) or (got is not None and got is not self.real[wanta.key]):
                raise Divergence('model.lookup:by-name', '%s: get_asset_by_name(%r) returned %s' % (where, n, None if got is None else (got.id, got.name)))
        for t in sh.attackers:
            if m.get_attacker_by_id(t.id) is not self.real[t.key]:
                raise Divergence('model.lookup:attacker-by-id', '%s: get_attacker_by_id(%r) wrong' % (where, t.id))
        # asset <-> association membership, neighbours
        for a in sh.assets:
            obj = self.real[a.key]
            got = {id(x) for x in obj.associations}
            wantm = {id(self.real[s.key]) for s in sh.assocs if a.key in s.left or a.key in s.right}
            if got != wantm:
                raise Divergence('model.asset.associations:%s' % ('backref-kept' if got - wantm else 'backref-missing'),
                                 '%s: asset %s lists %d associations, is listed by %d' % (where, a.id, len(got), len(wantm)))
            for f in self.fields:
                try:
                    res = m.get_associated_assets_by_field_name(obj, f)
                except Exception as exc:
                    raise Divergence('model.neighbours:raised', '%s: neighbours(%s,%s) raised %r' % (where, a.id, f, exc))
                self.count('neighbours-compared')
                gotn = sorted(int(x.id) for x in res)
                wantn = sorted(sh.asset(k).id for k in sh.neighbours(a.key, f))
                if sorted(set(gotn)) != wantn:
                    selfl = any(a.key in s.left and a.key in s.right for s in sh.assocs)
                    raise Divergence('model.neighbours:%s' % ('self-link-direction' if selfl else 'wrong-set'),
                                     '%s: neighbours(asset %s, %s) = %s expected %s' % (where, a.id, f, gotn, wantn))
        if [id(x) for x in m.associations] != [id(self.real[s.key]) for s in sh.assocs]:
            raise Divergence('model.associations:wrong-list', '%s: model.associations differs from the live instances' % where)
        # the reserved ids and names (named by the property); guarded: internal attributes
        if hasattr(m, 'asset_ids') and isinstance(m.asset_ids, (set, frozenset)):
            got = {int(i) for i in m.asset_ids}
            if got != set(ids):
                raise Divergence('model.reserved:id-%s' % ('stays-reserved' if got - set(ids) else 'not-reserved'),
                                 '%s: reserved ids %s, live ids %s' % (where, sorted(got), sorted(ids)))
        if hasattr(m, 'asset_names') and isinstance(m.asset_names, (set, frozenset)):
            got = {str(i) for i in m.asset_names}
            if got != set(names):
                raise Divergence('model.reserved:name-%s' % ('stays-reserved' if got - set(names) else 'not-reserved'),
                                 '%s: reserved names %s, live names %s' % (where, sorted(got), sorted(names)))

    # ---- end-of-history probes: nothing stays reserved -------------------------------------
    def final_probes(self):
        sh = self.sh
        conc = self.lang.concrete()
        for a in list(sh.dead_assets)[-4:]:
            if a.id not in sh.live_ids():
                self.apply(['add_asset', a.type if a.type in conc else conc[0], 'probe-id-%d' % a.id, a.id, True])
                self.count('probe:removed-id-reused')
        for a in list(sh.dead_assets)[-4:]:
            if a.name not in sh.live_names():
                self.apply(['add_asset', a.type if a.type in conc else conc[0], a.name, None, False])
                self.count('probe:removed-name-reused')

    def abstract_model(self):
        """ref_sem.AModel of the current shadow state"""
        from .ref_sem import AModel
        am = AModel(self.model.name)
        ids = {a.key: a.id for a in self.sh.assets}
        for a in self.sh.assets:
            am.assets.append({'id': a.id, 'name': a.name, 'type': a.type, 'defenses': dict(a.defenses), 'extras': dict(a.extras)})
        for s in self.sh.assocs:
            am.links.append({'assoc': s.ai, 'left': [ids[k] for k in s.left], 'right': [ids[k] for k in s.right], 'extras': {}})
        for t in self.sh.attackers:
            am.attackers.append({'id': t.id, 'name': t.name, 'entry_points': [(ids[k], list(st)) for k, st in t.eps]})
        return am


# ---- history generation ----------------------------------------------------------------------
def rref(rng, dead_share=0.1):
    return ['dead' if rng.random() < dead_share else 'live', rng.randrange(64)]


def surviving_departures(rng, spec, history, k=3):
    """remove_from_assoc operations (at most k) that are certain to apply after `history`: an asset leaves an association
    instance whose side holds at least one more asset, so the instance survives the departure"""
    try:
        ls = Lockstep(spec)
        ls.check_every_step = False
        for op in history:
            ls.apply(op)
    except Exception:
        return []
    sh = ls.sh
    cands = []
    for si, srec in enumerate(sh.assocs):
        for side in (srec.left, srec.right):
            if len(side) >= 2:
                for key in side:
                    cands.append(['remove_from_assoc', ['live', sh.assets.index(sh.asset(key))], ['live', si]])
    rng.shuffle(cands)
    out, used = [], set()
    for c in cands:
        if c[2][1] not in used:          # one departure per instance keeps the indices valid
            used.add(c[2][1])
            out.append(c)
    return out[:k]


def shared_instance_ops(rng, spec, history):
    """(ops, departures): new assets X1, X2 (one side) and Y (other side) linked by ONE association instance whose X side
    may hold several assets; afterwards X1 leaves that instance, which survives because X2 stays.  ([], []) when no
    association of the language allows two members on a side."""
    try:
        ls = Lockstep(spec)
        ls.check_every_step = False
        for op in history:
            ls.apply(op)
    except Exception:
        return [], []
    lang, sh = ls.lang, ls.sh
    conc = set(lang.concrete())
    options = []
    for ai, la in enumerate(lang.assocs):
        for side, mult in (('left', la['leftMultiplicity']), ('right', la['rightMultiplicity'])):
            if mult['max'] is None or mult['max'] >= 2:
                xs = [t for t in lang.descendants(la[side + 'Asset']) if t in conc]
                ys = [t for t in lang.descendants(la[('right' if side == 'left' else 'left') + 'Asset']) if t in conc]
                if xs and ys:
                    options.append((ai, side, xs, ys))
    if not options:
        return [], []
    ai, side, xs, ys = rng.choice(options)
    n = len(sh.assets)
    ops = [['add_asset', rng.choice(xs), None, None, True], ['add_asset', rng.choice(xs), None, None, True],
           ['add_asset', rng.choice(ys), None, None, True]]
    X, Y = [['live', n], ['live', n + 1]], [['live', n + 2]]
    ops.append(['add_assoc', ai, X, Y] if side == 'left' else ['add_assoc', ai, Y, X])
    return ops, [['remove_from_assoc', ['live', n + rng.randrange(2)], ['live', len(sh.assocs)]]]


def empty_side_prefix(rng, lang):
    """history prefix (for an empty model): an association instance one side of which has no member and the other
    2-4; members leave it one by one (it must survive until its non-empty side is down to the last member)"""
    conc = set(lang.concrete())
    cands = []
    for i, a in enumerate(lang.assocs):
        for side in ('left', 'right'):
            m = a[side + 'Multiplicity']['max']
            ts = [t for t in lang.descendants(a[side + 'Asset']) if t in conc]
            if ts and (m is None or m >= 2):
                cands.append((i, side, ts, m))
    if not cands:
        return None
    i, side, ts, m = rng.choice(cands)
    n = rng.randint(2, min(4, m or 4))
    ops = [['add_asset', rng.choice(ts), None, None, True] for _ in range(n)]
    members = [['live', k] for k in range(n)]
    ops.append(['add_assoc', i, members, []] if side == 'left' else ['add_assoc', i, [], members])
    if rng.random() < 0.5:
        ops.append(['add_assoc', i, members[:1] * 2, []] if side == 'left' else ['add_assoc', i, [], members[:1] * 2])    # the same asset twice (refused)
    for k in range(rng.randint(1, n)):
        ops.append(['remove_from_assoc', ['live', k], ['live', 0]])
    return ops


def big_link_prefix(rng, lang):
    """history prefix (for an empty model): one association instance with more than 32 (left, right) pairs and
    attempts that repeat one of its pairs / a big instance that repeats the pair of a small one.  None when the
    language has no association that is unbounded on both sides."""
    conc = set(lang.concrete())
    cands = []
    for i, a in enumerate(lang.assocs):
        if a['leftMultiplicity']['max'] is None and a['rightMultiplicity']['max'] is None:
            tl = [t for t in lang.descendants(a['leftAsset']) if t in conc]
            tr = [t for t in lang.descendants(a['rightAsset']) if t in conc]
            if tl and tr:
                cands.append((i, tl, tr))
    if not cands:
        return None
    i, tl, tr = rng.choice(cands)
    nl, nr = rng.choice([(3, 12), (12, 3), (6, 6), (5, 7), (4, 9), (2, 17), (1, 33), (8, 8), (3, 11), (11, 3)])
    ops = [['add_asset', rng.choice(tl), None, None, True] for _ in range(nl)]
    ops += [['add_asset', rng.choice(tr), None, None, True] for _ in range(nr)]
    L = [['live', k] for k in range(nl)]
    R = [['live', nl + k] for k in range(nr)]
    one = ([rng.choice(L)], [rng.choice(R)])
    v = rng.randrange(4)
    if v == 0:
        ops += [['add_assoc', i, one[0], one[1]], ['add_assoc', i, L, R]]                  # big repeats the pair of a small one
    elif v == 1:
        ops += [['add_assoc', i, L, R], ['add_assoc', i, one[0], one[1]], ['add_assoc', i, L, R]]
    elif v == 2:
        ops += [['add_assoc', i, L[:-1] or L, R], ['add_assoc', i, L, R[-1:]], ['add_assoc', i, L, R]]   # second is new only in its last left member
    else:
        ops += [['add_assoc', i, L, R[:1]], ['add_assoc', i, L, R[1:]], ['add_assoc', i, L, R]]          # two disjoint ones (valid), then their union
    return ops


def gen_history(rng, lang, n, invalid=0.2, names=None, attackers=True):
    names = names or ['a', 'b', 'n', 'n:1', 'n:2', 'a:b', 'srv', 'x', None]
    conc = lang.concrete()
    ops = []
    for _ in range(n):
        r = rng.random()
        bad = rng.random() < invalid
        if r < 0.28 or not ops:
            aid = None
            r2 = rng.random()
            if r2 < 0.35:
                aid = rng.choice([0, 0, 1, 2, 3, 5, 7, -1, -3, 12])
            elif r2 < 0.38:
                aid = rng.choice([255, 256, 65536, 2 ** 31 - 1, 2 ** 31, 2 ** 63 - 1, 10 ** 12, -2 ** 31])
            typ = rng.choice(conc)
            name = rng.choice(names)
            if rng.random() < 0.1:
                name = '%s:%d' % (typ, rng.choice([0, 1, 2, 3]))     # what an unnamed asset would be called
            elif rng.random() < 0.02:
                name = rng.choice(['n' * 300, ' padded ', '0123456789' * 13, 'e\u0301', '1', 'true'])
            ops.append(['add_asset', typ, name, aid, rng.random() < 0.8] + (['pjs'] if aid is not None and rng.random() < 0.3 else []))
        elif r < 0.29:
            ops.append(['re_add_asset', rref(rng, 0)])
        elif r < 0.30:
            ops.append(['add_asset_wrong_id_type', rng.choice(conc), rng.choice(['float', 'float', 'bool', 'str'])])
        elif r < 0.40:
            ops.append(['remove_asset', rref(rng, 0.5 if bad else 0.0)])
        elif r < 0.62:
            nl = 1 if rng.random() < 0.7 else 2
            nr = 1 if rng.random() < 0.7 else 2
            l = [rref(rng, 0) for _ in range(nl)]
            rr = [rref(rng, 0) for _ in range(nr)]
            if rng.random() < 0.15:
                rr = [l[0]]      # self link
            ops.append(['add_assoc', rng.randrange(64), l, rr])
            if bad:
                ops.append(['add_assoc', ops[-1][1], l, rr])      # the same link again
        elif r < 0.70:
            ops.append(['remove_assoc', rref(rng, 0.5 if bad else 0.0)])
        elif r < 0.80:
            ops.append(['remove_from_assoc', rref(rng, 0.3 if bad else 0.0), rref(rng, 0.3 if bad else 0.0)])
        elif r < 0.84:
            ops.append(['set_defense', rref(rng, 0), rng.randrange(16), rng.choice([0.0, 1.0, 0.5, 0.25, 0, 1])])     # (0 and 1 as ints too)
        elif not attackers:
            ops.append(['remove_asset', rref(rng, 0.0)])
        elif r < 0.89:
            ops.append(['add_attacker', rng.choice([None, None, 'Eve', 'Mallory']), None if rng.random() < 0.7 else rng.choice([20, 21, 30, 0])])
        elif r < 0.915:
            ops.append(['remove_attacker', rref(rng, 0.4 if bad else 0.0)])
        elif r < 0.92:
            ops.append(['add_prepared_attacker', rng.choice(conc), rng.choice(conc), rng.randrange(16), rng.randrange(16)])
        elif r < 0.925:
            ops.append(['add_ep_empty', rref(rng, 0), rref(rng, 0)])
        elif r < 0.97:
            ops.append(['add_ep', rref(rng, 0), rref(rng, 0), rng.randrange(16)])
        else:
            ops.append(['remove_ep', rref(rng, 0), rref(rng, 0), rng.randrange(16)])
    return ops

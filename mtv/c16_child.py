"""Child process of C16: build attack graphs for the cases in a directory by
several routes and print one JSON line {case, route, digest, ...} per graph.
Run with a PYTHONHASHSEED chosen by the parent."""
from __future__ import annotations

import hashlib
import json
import os
import sys


def canon(d):
    return json.dumps(d, sort_keys=True, default=str, separators=(',', ':'))


def main():
    case_dir = sys.argv[1]
    from mtv import env
    env.bootstrap()
    import copy
    from maltoolbox.language import LanguageGraph, LanguageClassesFactory
    from maltoolbox.model import Model, AttackerAttachment
    from maltoolbox.attackgraph import AttackGraph
    from maltoolbox.attackgraph.analyzers.apriori import calculate_viability_and_necessity
    from maltoolbox.wrappers import create_attack_graph
    from mtv.ref_sem import Lang, AModel
    from mtv.gen_model import build_real

    out = []
    names = sorted(n for n in os.listdir(case_dir) if n.endswith('.case.json'))
    for n in names:
        base = os.path.join(case_dir, n[:-len('.case.json')])
        with open(base + '.case.json') as f:
            case = json.load(f)

        def emit(route, fn):
            try:
                g = fn()
                d = g._to_dict()
                s = canon(d)
                out.append({'case': n, 'route': route, 'digest': hashlib.sha256(s.encode()).hexdigest(),
                            'nodes': len(d['attack_steps']), 'first_ids': [v['id'] for v in list(d['attack_steps'].values())[:5]]})
            except SystemExit as exc:
                out.append({'case': n, 'route': route, 'error': 'SystemExit(%s)' % exc})
            except Exception as exc:
                out.append({'case': n, 'route': route, 'error': '%s: %s' % (type(exc).__name__, str(exc)[:200])})

        def direct(analyse, attach=None):
            attach = analyse if attach is None else attach
            lang = Lang(case['spec'])
            lg = LanguageGraph(copy.deepcopy(case['spec']))
            fac = LanguageClassesFactory(lg)
            am = AModel.from_json(case['amodel'])
            model, objs = build_real(lang, am, fac, Model, AttackerAttachment, explicit_ids=True)
            g = AttackGraph(lg, model)
            if attach:
                g.attach_attackers()
            if analyse:
                calculate_viability_and_necessity(g)
            return g

        def files(analyse, ext):
            lg = LanguageGraph.from_mar_archive(base + '.mar')
            fac = LanguageClassesFactory(lg)
            model = Model.load_from_file(base + '.model.' + ext, fac)
            g = AttackGraph(lg, model)
            if analyse:
                g.attach_attackers()
                calculate_viability_and_necessity(g)
            return g

        emit('direct/bare', lambda: direct(False))
        emit('direct/analysed', lambda: direct(True))
        # the two remaining combinations of the wrapper's switches, by keyword and by position
        emit('direct/analysed-not-attached', lambda: direct(True, attach=False))
        emit('direct/attached-not-analysed', lambda: direct(False, attach=True))
        emit('wrapper-mar-json-kw/analysed-not-attached', lambda: create_attack_graph(base + '.mar', base + '.model.json', attach_attackers=False))
        emit('wrapper-mar-json-pos/analysed-not-attached', lambda: create_attack_graph(base + '.mar', base + '.model.json', False, True))
        emit('wrapper-mar-json-kw/attached-not-analysed', lambda: create_attack_graph(base + '.mar', base + '.model.json', calc_viability_and_necessity=False))
        emit('wrapper-mar-json-pos/attached-not-analysed', lambda: create_attack_graph(base + '.mar', base + '.model.json', True, False))
        for ext in ('json', 'yml'):
            emit('files-%s/bare' % ext, lambda: files(False, ext))
            emit('files-%s/analysed' % ext, lambda: files(True, ext))
            emit('wrapper-mar-%s/bare' % ext, lambda: create_attack_graph(base + '.mar', base + '.model.' + ext, attach_attackers=False, calc_viability_and_necessity=False))
            emit('wrapper-mar-%s/analysed' % ext, lambda: create_attack_graph(base + '.mar', base + '.model.' + ext))
        if os.path.exists(base + '.mal'):
            emit('wrapper-mal-json/bare', lambda: create_attack_graph(base + '.mal', base + '.model.json', attach_attackers=False, calc_viability_and_necessity=False))
            emit('wrapper-mal-json/analysed', lambda: create_attack_graph(base + '.mal', base + '.model.json'))
    json.dump(out, sys.stdout)


if __name__ == '__main__':
    main()

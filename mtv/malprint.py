"""Specification dict -> MAL source text, minimal parenthesisation under the
grammar's own precedence (DESIGN 2.2), and file layouts with includes."""
from __future__ import annotations

import copy

SETOPS = {'union': '\\/', 'intersection': '/\\', 'difference': '-'}
TTCOPS = {'addition': '+', 'subtraction': '-', 'multiplication': '*', 'division': '/', 'exponentiation': '^'}
STEPSYM = {'or': '|', 'and': '&', 'defense': '#', 'exist': 'E', 'notExist': '!E'}


# ---- step expressions -------------------------------------------------------
def _is_atom(e):
    return e['type'] in ('field', 'attackStep', 'variable')


def _part_level(e):
    """can e be printed as a single `part` without parentheses?
    part: atom STAR? type*"""
    k = e['type']
    if _is_atom(e):
        return True
    if k == 'transitive':
        return True      # prints as atom* or (expr)*
    if k == 'subType':
        return True      # prints as <part>[T] or (expr)[T]
    return False


def p_atom(e):
    if e['type'] == 'variable':
        return e['name'] + '()'
    return e['name']


def p_part(e):
    k = e['type']
    if _is_atom(e):
        return p_atom(e)
    if k == 'transitive':
        s = e['stepExpression']
        if _is_atom(s):
            return p_atom(s) + '*'
        return '(' + p_expr(s) + ')*'
    if k == 'subType':
        s = e['stepExpression']
        # one STAR may precede the types; a transitive of an atom, an atom, or
        # another subType chain continue the same part
        if _is_atom(s):
            return p_atom(s) + '[' + e['subType'] + ']'
        if s['type'] == 'subType':
            return p_part(s) + '[' + e['subType'] + ']'
        if s['type'] == 'transitive':
            return p_part(s) + '[' + e['subType'] + ']'
        return '(' + p_expr(s) + ')[' + e['subType'] + ']'
    return '(' + p_expr(e) + ')'


def p_parts(e):
    if e['type'] == 'collect':
        l, r = e['lhs'], e['rhs']
        ls = p_parts(l) if (l['type'] == 'collect' or _part_level(l)) else '(' + p_expr(l) + ')'
        rs = p_part(r) if _part_level(r) else '(' + p_expr(r) + ')'
        return ls + '.' + rs
    if _part_level(e):
        return p_part(e)
    return '(' + p_expr(e) + ')'


def p_expr(e):
    if e['type'] in SETOPS:
        l, r = e['lhs'], e['rhs']
        ls = p_expr(l)                                   # left-assoc: no parens
        rs = p_parts(r) if r['type'] not in SETOPS else '(' + p_expr(r) + ')'
        return ls + ' ' + SETOPS[e['type']] + ' ' + rs
    return p_parts(e)


# ---- TTC ------------------------------------------------------------------------
def p_num(v):
    f = float(v)
    if f == int(f) and abs(f) < 1e15:
        return str(int(f))
    s = repr(f)
    if 'e' in s or 'E' in s:
        raise ValueError('number %r has no plain decimal form' % v)
    return s


def p_ttc(t, rng=None):
    k = t['type']
    if k == 'function':
        if t['arguments'] or (rng is not None and rng.random() < 0.3):
            return t['name'] + '(' + ', '.join(p_num(a) for a in t['arguments']) + ')'
        return t['name']
    if k == 'number':
        return p_num(t['value'])
    l, r = t['lhs'], t['rhs']
    if k in ('addition', 'subtraction'):
        ls = p_ttc(l, rng)
        rs = p_ttc(r, rng)
        if r['type'] in ('addition', 'subtraction'):
            rs = '(' + rs + ')'
        return ls + ' ' + TTCOPS[k] + ' ' + rs
    if k in ('multiplication', 'division'):
        ls = p_ttc(l, rng)
        if l['type'] in ('addition', 'subtraction'):
            ls = '(' + ls + ')'
        rs = p_ttc(r, rng)
        if r['type'] in ('addition', 'subtraction', 'multiplication', 'division'):
            rs = '(' + rs + ')'
        return ls + ' ' + TTCOPS[k] + ' ' + rs
    if k == 'exponentiation':
        ls = p_ttc(l, rng)
        if l['type'] not in ('function', 'number'):
            ls = '(' + ls + ')'
        rs = p_ttc(r, rng)
        if r['type'] not in ('function', 'number'):
            rs = '(' + rs + ')'
        return ls + ' ^ ' + rs
    raise ValueError(k)


# ---- declarations ---------------------------------------------------------------------
def p_meta(meta, ind):
    return ''.join('%s%s info: "%s"\n' % (ind, k, v) for k, v in meta.items())


def p_mult(m, rng=None):
    lo, hi = m['min'], m['max']
    alt = rng is not None and rng.random() < 0.5
    # every spelling the grammar has for the same range: a star as lower limit means 0
    star_lo = rng is not None and lo == 0 and rng.random() < 0.4
    if hi is None:
        if lo == 0:
            return '*..*' if star_lo else ('0..*' if alt else '*')
        return '%d..*' % lo
    if lo == hi and not star_lo:
        return ('%d..%d' % (lo, hi)) if alt else str(lo)
    return ('*..%d' % hi) if star_lo else '%d..%d' % (lo, hi)


def p_step(s, rng=None, ind='    '):
    out = ind + STEPSYM[s['type']] + ' ' + s['name']
    for t in s['tags']:
        out += ' @' + t
    if s['risk']:
        letters = [c for c, k in (('C', 'isConfidentiality'), ('I', 'isIntegrity'), ('A', 'isAvailability')) if s['risk'][k]]
        if rng is not None:
            rng.shuffle(letters)
        out += ' {' + ', '.join(letters) + '}'
    if s['ttc']:
        out += ' [' + p_ttc(s['ttc'], rng) + ']'
    out += '\n'
    out += p_meta(s['meta'], ind + '  ')
    if s['requires']:
        out += ind + '  <- ' + (',\n' + ind + '     ').join(p_expr(e) for e in s['requires']['stepExpressions']) + '\n'
    if s['reaches']:
        arrow = '->' if s['reaches']['overrides'] else '+>'
        out += ind + '  ' + arrow + ' ' + (',\n' + ind + '     ').join(p_expr(e) for e in s['reaches']['stepExpressions']) + '\n'
    return out


def p_asset(a, rng=None, ind='  '):
    out = ind + ('abstract ' if a['isAbstract'] else '') + 'asset ' + a['name']
    if a['superAsset']:
        out += ' extends ' + a['superAsset']
    out += '\n' + p_meta(a['meta'], ind + '  ') + ind + '{\n'
    # variables and steps may be interleaved in the source; the compiler keeps
    # the order within each kind
    items = [('v', v) for v in a['variables']] + [('s', s) for s in a['attackSteps']]
    if rng is not None and rng.random() < 0.5:
        vs = [x for x in items if x[0] == 'v']
        ss = [x for x in items if x[0] == 's']
        items = []
        while vs or ss:
            if vs and (not ss or rng.random() < 0.5):
                items.append(vs.pop(0))
            else:
                items.append(ss.pop(0))
    for kind, it in items:
        if kind == 'v':
            out += ind + '  let ' + it['name'] + ' = ' + p_expr(it['stepExpression']) + '\n'
        else:
            out += p_step(it, rng, ind + '  ')
    out += ind + '}\n'
    return out


def p_category(cat, assets, rng=None):
    out = 'category ' + cat['name'] + '\n' + p_meta(cat['meta'], '  ') + '{\n'
    for a in assets:
        out += p_asset(a, rng)
    out += '}\n'
    return out


def p_assoc(a, rng=None):
    out = '  %s [%s] %s <-- %s --> %s [%s] %s\n' % (
        a['leftAsset'], a['leftField'], p_mult(a['leftMultiplicity'], rng), a['name'],
        p_mult(a['rightMultiplicity'], rng), a['rightField'], a['rightAsset'])
    out += p_meta(a['meta'], '      ')
    return out


def p_assocs(assocs, rng=None):
    return 'associations {\n' + ''.join(p_assoc(a, rng) for a in assocs) + '}\n'


def p_defines(defs):
    return ''.join('#%s: "%s"\n' % (k, v) for k, v in defs.items())


def decl_chunks(spec, rng=None):
    """ordered list of (kind, text) declarations whose concatenation compiles
    to `spec` (categories in order, each with its assets in order)"""
    chunks = [('defines', p_defines(spec['defines']))]
    for cat in spec['categories']:
        assets = [a for a in spec['assets'] if a['category'] == cat['name']]
        chunks.append(('category', p_category(cat, assets, rng)))
    if spec['associations'] or (rng is not None and rng.random() < 0.3):
        chunks.append(('associations', p_assocs(spec['associations'], rng)))
    return chunks


def sprinkle(text, rng):
    """comments and odd whitespace between lines"""
    out = []
    quotes = 0          # a MAL string may span lines: nothing is inserted inside one
    for line in text.split('\n'):
        r = rng.random()
        inside = quotes % 2 == 1
        quotes += line.count('"')
        if inside:
            pass
        elif r < 0.05:
            out.append('// a comment with "quotes" and -> arrows')
        elif r < 0.08:
            out.append('/* block\n   comment | & # */')
        elif r < 0.12:
            out.append('\t  ')
        out.append(line)
    return '\n'.join(out)


def print_spec(spec, rng=None, comments=False):
    text = ''.join(t for _k, t in decl_chunks(spec, rng))
    if comments and rng is not None:
        text = sprinkle(text, rng)
    return text


def canonical_order_ok(spec):
    """single-file printing reproduces list order only when assets are grouped
    by category in category order (the generator guarantees it)"""
    order = [c['name'] for c in spec['categories']]
    seq = [order.index(a['category']) for a in spec['assets']]
    return seq == sorted(seq)


# ---- layouts ---------------------------------------------------------------------------
def split_spec_chunks(spec, rng, fine=False):
    """chunks at a finer grain: a category may be declared several times (same
    name and meta) with consecutive slices of its assets; association blocks
    may be split as well.  Concatenation in order compiles to `spec`."""
    chunks = [('defines', p_defines(spec['defines']))]
    for cat in spec['categories']:
        assets = [a for a in spec['assets'] if a['category'] == cat['name']]
        if fine and len(assets) >= 2 and rng.random() < 0.6:
            cut = rng.randint(1, len(assets) - 1)
            chunks.append(('category', p_category(cat, assets[:cut], rng)))
            chunks.append(('category', p_category(cat, assets[cut:], rng)))
        else:
            chunks.append(('category', p_category(cat, assets, rng)))
    assocs = spec['associations']
    if assocs:
        if fine and len(assocs) >= 2 and rng.random() < 0.6:
            cut = rng.randint(1, len(assocs) - 1)
            chunks.append(('associations', p_assocs(assocs[:cut], rng)))
            chunks.append(('associations', p_assocs(assocs[cut:], rng)))
        else:
            chunks.append(('associations', p_assocs(assocs, rng)))
    return chunks


def layout(spec, rng, kind):
    """returns (files: {name: text}, root name, order_preserving: bool)

    kinds: single | ordered-split | arbitrary-split | repeated | nested
    """
    if kind == 'single':
        return {'main.mal': print_spec(spec, rng, comments=rng.random() < 0.3)}, 'main.mal', True
    chunks = split_spec_chunks(spec, rng, fine=True)
    n = rng.randint(1, min(4, len(chunks)))
    if rng.random() < 0.05:
        n = len(chunks)          # one file per declaration
    if kind in ('ordered-split', 'repeated', 'nested'):
        # consecutive groups of chunks -> files, included in order
        cuts = sorted(rng.sample(range(1, len(chunks)), n - 1)) if n > 1 else []
        groups, prev = [], 0
        for c in cuts + [len(chunks)]:
            groups.append(chunks[prev:c])
            prev = c
        files = {}
        root_lines = []
        inline = rng.randrange(len(groups)) if rng.random() < 0.5 else None
        for i, g in enumerate(groups):
            text = ''.join(t for _k, t in g)
            if i == inline:
                root_lines.append(text)
            else:
                files['part%d.mal' % i] = text
                root_lines.append('include "part%d.mal"\n' % i)
        if kind == 'repeated' and files:
            # including a file again adds only identical declarations
            name = rng.choice(sorted(files))
            root_lines.append('include "%s"\n' % name)
        if kind == 'nested' and len(files) >= 2:
            # the last included file is pulled in by the one before it instead
            names = sorted(files)
            last, before = names[-1], names[-2]
            files[before] = files[before] + 'include "%s"\n' % last
            root_lines = [l for l in root_lines if l != 'include "%s"\n' % last]
            # only order preserving if nothing came between/after them
            order_ok = root_lines[-1] == 'include "%s"\n' % before if root_lines else False
            files['main.mal'] = ''.join(root_lines)
            return files, 'main.mal', order_ok and kind != 'repeated'
        files['main.mal'] = ''.join(root_lines)
        return files, 'main.mal', kind != 'repeated' or True
    if kind == 'arbitrary-split':
        order = list(range(len(chunks)))
        rng.shuffle(order)
        files = {}
        root = []
        for j, i in enumerate(order):
            if rng.random() < 0.5:
                files['p%d.mal' % j] = chunks[i][1]
                root.append('include "p%d.mal"\n' % j)
            else:
                root.append(chunks[i][1])
        files['main.mal'] = ''.join(root)
        return files, 'main.mal', False
    raise ValueError(kind)
